#!/bin/bash
# usage: tools/seeded.sh <seeded-dir> <property> <package dir of the demo, relative to repo root>
# 1. confirms the seeded change in a scratch worktree (demo fails with it, passes without, suite passes with it)
# 2. applies it to /repo, runs the property's quick check, and undoes it
set -u
if [ -n "$(git -C /repo status --porcelain)" ]; then echo "refusing: /repo has uncommitted changes (commit them first)"; exit 2; fi
D=$(cd "$1" && pwd); P=$2; PKG=$3
export GOFLAGS=-mod=mod GOPROXY=off GOSUMDB=off GOTOOLCHAIN=local
WT=$(mktemp -d /tmp/seedwt-XXXX); rmdir $WT
git -C /repo worktree add -q --detach $WT HEAD || exit 2
demo=$(ls $D/*_test.go | head -1)
cp $demo $WT/$PKG/
cd $WT
git apply $D/patch.diff || { echo "PATCH DOES NOT APPLY"; git -C /repo worktree remove --force $WT; exit 2; }
go build ./... >/dev/null 2>&1 && echo "build: ok" || echo "build: FAILED"
go test -vet=off -count=1 -run 'Seeded' ./$PKG/ >/tmp/seed-demo-with.log 2>&1 && echo "demo with change: PASS (unexpected)" || echo "demo with change: FAIL (expected)"
mv $WT/$PKG/$(basename $demo) /tmp/seed-demo-file.go
go test -vet=off -count=1 $(go list ./... | grep -v osmpbf) >/tmp/seed-suite.log 2>&1 && echo "suite with change: PASS (expected)" || echo "suite with change: FAIL"
mv /tmp/seed-demo-file.go $WT/$PKG/$(basename $demo)
git apply -R $D/patch.diff
go test -vet=off -count=1 -run 'Seeded' ./$PKG/ >/tmp/seed-demo-without.log 2>&1 && echo "demo without change: PASS (expected)" || echo "demo without change: FAIL (unexpected)"
cd /verif
git -C /repo worktree remove --force $WT
# run the check with the change applied: against /repo itself (apply, check, undo), or - with
# SEEDED_SCRATCH=1, for use while another check is reading /repo - against a scratch copy of /repo
if [ "${SEEDED_SCRATCH:-}" = "1" ]; then
  SR=$(mktemp -d /tmp/seedrepo-XXXX); cp -r /repo/. $SR/ && rm -rf $SR/.git
  (cd $SR && patch -p1 -s < $D/patch.diff) || { echo "PATCH DOES NOT APPLY TO THE COPY"; rm -rf $SR; exit 2; }
  ${GOVC:-./bin/govc} check --property $P --tier quick --no-evidence --repo $SR > /tmp/seed-check.log 2>&1; rc=$?
  REPLAY_REPO="--repo $SR"
else
  git -C /repo apply $D/patch.diff || { echo "PATCH DOES NOT APPLY TO /repo"; exit 2; }
  ./bin/govc check --property $P --tier quick --no-evidence > /tmp/seed-check.log 2>&1; rc=$?
  git -C /repo checkout -- .
  REPLAY_REPO=""
fi
echo "check exit: $rc"
grep "^VIOLATION\|^KNOWN\|^property" /tmp/seed-check.log | cut -c1-400
for f in $(grep -o 'replay=[^ ]*' /tmp/seed-check.log | cut -d= -f2 | head -3); do ./bin/govc replay $f | grep "confirmed\|replay:" | cut -c1-300; done
[ -n "${SR:-}" ] && rm -rf $SR
rm -rf /verif/out/replay
