#!/bin/bash
# usage: tools/mutate.sh PROP 'sed-expr' file-relative-to-repo [only-substr]
# copies /repo to a scratch directory, applies the sed expression to one file and runs the quick check there
set -u
P=$1; E=$2; F=$3; O=${4:-}
rm -rf /tmp/mrepo && cp -r /repo /tmp/mrepo && rm -rf /tmp/mrepo/.git
sed -i "$E" /tmp/mrepo/$F
if diff -q /repo/$F /tmp/mrepo/$F >/dev/null; then echo "MUTATION DID NOT CHANGE THE FILE"; rm -rf /tmp/mrepo; exit 2; fi
diff /repo/$F /tmp/mrepo/$F | head -6
(cd /tmp/mrepo && GOFLAGS=-mod=mod GOPROXY=off GOSUMDB=off GOTOOLCHAIN=local go build ./... ) || { echo "DOES NOT BUILD"; rm -rf /tmp/mrepo; exit 2; }
cd /verif && ./bin/govc check --property $P --repo /tmp/mrepo --no-evidence ${O:+--only "$O"} 2>&1 | grep "^VIOLATION\|^property\|^KNOWN" | cut -c1-330
rm -rf /tmp/mrepo
