//go:build verif

package osmxml

import (
	"encoding/xml"
	"bytes"
	"context"
	"fmt"
	"strings"

	"github.com/paulmach/osm"
)

func xmlAbs(x int) int {
	if x < 0 {
		if x == -x {
			return 0
		}
		return -x
	}
	return x
}

// xmlCancellingReader serves data in small pieces and cancels the context
// when the piece containing offset cancelAt has been handed out.
type xmlCancellingReader struct {
	data     []byte
	pos      int
	chunk    int
	cancelAt int
	cancel   context.CancelFunc
}

func (r *xmlCancellingReader) Read(p []byte) (int, error) {
	if r.pos >= len(r.data) {
		return 0, fmt.Errorf("end of test input")
	}
	n := r.chunk
	if n > len(p) {
		n = len(p)
	}
	n = copy(p[:n], r.data[r.pos:])
	r.pos += n
	if r.cancel != nil && r.pos > r.cancelAt {
		r.cancel()
		r.cancel = nil
	}
	return n, nil
}

// C07 (XML): "A PBF or XML scan can be stopped at any moment by Close or by
// cancelling its context: the call returns without consuming the rest of the
// input, every later Scan returns false, and Err reports ... the context's
// error after cancellation".
//
// The input is a long run of elements the scanner skips, with objects in
// between; the context is cancelled while a Scan call is in progress.
//
//@ func oracleC07XMLCancel
//@   props C07
//@   oracle
//@   covers osmxml.Scanner
func oracleC07XMLCancel(nSkip int, nodesEvery int, cancelSel int, chunkSel int) {
	nSkip = (xmlAbs(nSkip)*37)%400 + 200
	every := (xmlAbs(nodesEvery) * 7) % 50 // 0: no objects at all
	var buf bytes.Buffer
	buf.WriteString(`<?xml version="1.0" encoding="UTF-8"?><osm version="0.6">`)
	for i := 0; i < nSkip; i++ {
		if every > 0 && i%every == every-1 {
			fmt.Fprintf(&buf, `<node id="%d" lat="1" lon="2" version="1"/>`, i+1)
		} else {
			buf.WriteString(`<ignored k="v">text</ignored>`)
		}
	}
	buf.WriteString(`</osm>`)
	data := buf.Bytes()
	chunk := (xmlAbs(chunkSel)*5)%48 + 16
	cancelAt := (xmlAbs(cancelSel) * 977) % (len(data) / 2)
	ctx, cancel := context.WithCancel(context.Background())
	defer cancel()
	r := &xmlCancellingReader{data: data, chunk: chunk, cancelAt: cancelAt, cancel: cancel}
	s := New(ctx, r)
	for s.Scan() {
	}
	// the token in flight may be finished (at most one more element, i.e. a few pieces), the rest
	// of the input is not consumed
	vAssert(r.pos <= cancelAt+3*chunk+200)
	vAssert(r.pos < len(data))
	vAssert(!s.Scan())
	vAssert(s.Err() == context.Canceled)
}

// C07 (XML), Close: every later Scan returns false without reading, Err
// reports the scanner-closed error.
//
//@ func oracleC07XMLClose
//@   props C07
//@   oracle
//@   covers osmxml.Scanner
func oracleC07XMLClose(nNodes int, stop int) {
	nNodes = xmlAbs(nNodes)%20 + 2
	var buf bytes.Buffer
	buf.WriteString(`<osm version="0.6">`)
	for i := 0; i < nNodes; i++ {
		fmt.Fprintf(&buf, `<node id="%d" lat="1" lon="2" version="1"/>`, i+1)
	}
	for i := 0; i < 2000; i++ {
		buf.WriteString(`<ignored k="v">text</ignored>`)
	}
	buf.WriteString(`</osm>`)
	data := buf.Bytes()
	r := &xmlCancellingReader{data: data, chunk: 64, cancelAt: len(data)}
	s := New(context.Background(), r)
	k := xmlAbs(stop) % nNodes
	for i := 0; i < k; i++ {
		vAssert(s.Scan())
	}
	before := r.pos
	s.Close()
	vAssert(!s.Scan())
	vAssert(!s.Scan())
	vAssert(r.pos == before)
	vAssert(s.Err() == osm.ErrScannerClosed)
}

func c03Clean(o *osm.OSM) {
	if o == nil {
		return
	}
	var ns osm.Nodes
	for _, x := range o.Nodes {
		if x != nil {
			x.XMLName.Space, x.XMLName.Local = "", ""
			ns = append(ns, x)
		}
	}
	o.Nodes = ns
	var ws osm.Ways
	for _, x := range o.Ways {
		if x != nil {
			x.XMLName.Space, x.XMLName.Local = "", ""
			ws = append(ws, x)
		}
	}
	o.Ways = ws
	var rs osm.Relations
	for _, x := range o.Relations {
		if x != nil {
			x.XMLName.Space, x.XMLName.Local = "", ""
			rs = append(rs, x)
		}
	}
	o.Relations = rs
	o.Changesets, o.Notes, o.Users = nil, nil, nil
}

// C03: "The streaming XML scanner yields the same objects, in document order,
// as decoding the whole document at once" -- for <osm> documents and for
// osmChange documents with any interleaving of create/modify/delete blocks.
//
//@ func oracleC03ScanEqualsDecode
//@   props C03
//@   oracle
func oracleC03ScanEqualsDecode(a osm.OSM, b osm.OSM, asChange bool) {
	c03Clean(&a)
	c03Clean(&b)
	var data []byte
	var err error
	var want []string // whole-document decode, objects in document order, as re-marshalled text
	text := func(x interface{}) string {
		t, _ := xml.Marshal(x)
		return string(t)
	}
	collect := func(o *osm.OSM) {
		if o == nil {
			return
		}
		if o.Bounds != nil {
			want = append(want, text(o.Bounds))
		}
		for _, x := range o.Nodes {
			want = append(want, text(x))
		}
		for _, x := range o.Ways {
			want = append(want, text(x))
		}
		for _, x := range o.Relations {
			want = append(want, text(x))
		}
	}
	if asChange {
		c := osm.Change{Create: &a, Delete: &b}
		data, err = xml.Marshal(c)
		vAssume(err == nil)
		var back osm.Change
		vAssume(xml.Unmarshal(data, &back) == nil)
		collect(back.Create)
		collect(back.Modify)
		collect(back.Delete)
	} else {
		data, err = xml.Marshal(a)
		vAssume(err == nil)
		var back osm.OSM
		vAssume(xml.Unmarshal(data, &back) == nil)
		collect(&back)
	}
	s := New(context.Background(), bytes.NewReader(data))
	var got []string
	for s.Scan() {
		got = append(got, text(s.Object()))
	}
	vAssert(s.Err() == nil)
	vAssert(len(got) == len(want))
	for i := range want {
		if i < len(got) {
			vAssert(got[i] == want[i])
		}
	}
}

// C03, every element kind: a hand-written document with a node, a way, a
// relation, a changeset, two notes and a user - ids chosen freely, zero
// included - is scanned into as many objects, of the same kinds and ids in
// document order, as decoding the whole document yields.
//
//@ func oracleC03ScanAllKinds
//@   props C03
//@   oracle
func oracleC03ScanAllKinds(idSel int, zero int) {
	id := func(k int) int {
		if (zero>>uint(k))&1 == 1 {
			return 0
		}
		if idSel < 0 {
			return -(idSel+1)%1000 + k + 1
		}
		return idSel%1000 + k + 1
	}
	doc := fmt.Sprintf(`<osm version="0.6"><node id="%d" lat="1" lon="2"/><way id="%d"><nd ref="1"/></way><relation id="%d"/>`+
		`<changeset id="%d" open="false"/><note lat="1" lon="2"><id>%d</id><status>open</status></note><note lat="3" lon="4"><status>closed</status></note>`+
		`<user id="%d" display_name="u"/></osm>`, id(0), id(1), id(2), id(3), id(4), id(5))
	var whole osm.OSM
	vAssert(xml.Unmarshal([]byte(doc), &whole) == nil)
	want := []string{}
	for _, x := range whole.Nodes {
		want = append(want, fmt.Sprintf("node/%d", x.ID))
	}
	for _, x := range whole.Ways {
		want = append(want, fmt.Sprintf("way/%d", x.ID))
	}
	for _, x := range whole.Relations {
		want = append(want, fmt.Sprintf("relation/%d", x.ID))
	}
	for _, x := range whole.Changesets {
		want = append(want, fmt.Sprintf("changeset/%d", x.ID))
	}
	for _, x := range whole.Notes {
		want = append(want, fmt.Sprintf("note/%d", x.ID))
	}
	for _, x := range whole.Users {
		want = append(want, fmt.Sprintf("user/%d", x.ID))
	}
	vAssert(len(want) == 7)
	s := New(context.Background(), strings.NewReader(doc))
	var got []string
	for s.Scan() {
		switch x := s.Object().(type) {
		case *osm.Node:
			got = append(got, fmt.Sprintf("node/%d", x.ID))
		case *osm.Way:
			got = append(got, fmt.Sprintf("way/%d", x.ID))
		case *osm.Relation:
			got = append(got, fmt.Sprintf("relation/%d", x.ID))
		case *osm.Changeset:
			got = append(got, fmt.Sprintf("changeset/%d", x.ID))
		case *osm.Note:
			got = append(got, fmt.Sprintf("note/%d", x.ID))
		case *osm.User:
			got = append(got, fmt.Sprintf("user/%d", x.ID))
		default:
			got = append(got, "?")
		}
	}
	vAssert(s.Err() == nil)
	vAssert(len(got) == len(want))
	for i := range want {
		if i < len(got) {
			vAssert(got[i] == want[i])
		}
	}
}
