//go:build verif

package osmapi

import (
	"context"
	"fmt"
	"net/http"
	"net/http/httptest"
	"strings"
	"time"

	"github.com/paulmach/osm"
)

type c20Limiter struct{ waits, reqsAtWait int; reqs *int }

func (l *c20Limiter) Wait(context.Context) error {
	l.waits++
	l.reqsAtWait = *l.reqs
	return nil
}

func c20Abs(x int) int {
	if x < 0 {
		if x == -x {
			return 0
		}
		return -x
	}
	return x
}

// C20: "Every osmapi call issues exactly one GET to the documented API v0.6
// path for its arguments and options under the configured base URL, after
// waiting on the rate limiter when one is set, and returns exactly the
// elements contained in the server's response. 404, 403, 410, 414 and any
// other non-200 status are mapped to their distinct typed errors, with the
// not-found test true only for 404 ...; single-element calls reject responses
// that do not contain exactly one element."
//
// The expected paths below are transcribed from the OSM API v0.6 documentation,
// independently of the package's format strings.
//
//@ func oracleC20Endpoints
//@   props C20
//@   oracle
func oracleC20Endpoints(kind int, idSel int, verSel int, statusSel int, count int, useAt bool, zoneHours int, limiter bool, noClient bool) {
	id := int64(c20Abs(idSel)%100000 + 1)
	ver := c20Abs(verSel)%50 + 1
	statuses := []int{200, 200, 200, 404, 403, 410, 414, 500, 401, 204, 301}
	status := statuses[c20Abs(statusSel)%len(statuses)]
	n := c20Abs(count) % 3 // number of elements in the response
	elems := []string{"node", "way", "relation", "note", "user", "changeset"}

	k := c20Abs(kind) % 17
	var want string  // expected path and query
	var elem string  // element type of the response
	single := false
	withOpts := false
	switch k {
	case 0:
		want, elem, single, withOpts = fmt.Sprintf("/node/%d", id), "node", true, true
	case 1:
		want, elem, single = fmt.Sprintf("/node/%d/%d", id, ver), "node", true
	case 2:
		want, elem = fmt.Sprintf("/node/%d/history", id), "node"
	case 3:
		want, elem, withOpts = fmt.Sprintf("/node/%d/ways", id), "way", true
	case 4:
		want, elem, withOpts = fmt.Sprintf("/node/%d/relations", id), "relation", true
	case 5:
		want, elem, single, withOpts = fmt.Sprintf("/way/%d", id), "way", true, true
	case 6:
		want, elem, single = fmt.Sprintf("/way/%d/%d", id, ver), "way", true
	case 7:
		want, elem = fmt.Sprintf("/way/%d/history", id), "way"
	case 8:
		want, elem, withOpts = fmt.Sprintf("/way/%d/relations", id), "relation", true
	case 9:
		want, elem, single, withOpts = fmt.Sprintf("/relation/%d", id), "relation", true, true
	case 10:
		want, elem, single = fmt.Sprintf("/relation/%d/%d", id, ver), "relation", true
	case 11:
		want, elem = fmt.Sprintf("/relation/%d/history", id), "relation"
	case 12:
		want, elem, withOpts = fmt.Sprintf("/relation/%d/relations", id), "relation", true
	case 13:
		want, elem, single = fmt.Sprintf("/notes/%d", id), "note", true
	case 14:
		want, elem, single = fmt.Sprintf("/user/%d", id), "user", true
	case 15:
		want, elem, single = fmt.Sprintf("/changeset/%d", id), "changeset", true
	case 16:
		// free text with characters that are reserved in a query string: the documented request is
		// /notes/search?q=<query>, i.e. the server must read back exactly this text as q and nothing else
		want, elem = "/notes/search", "note"
	}
	queries := []string{"asdf", "fish & chips", "a+b", "x&limit=5000", "50% off", "k=v;w", "caf\u00e9 #1"}
	query := queries[c20Abs(idSel)%len(queries)]
	var gotQuery map[string][]string
	_ = elems
	at := time.Date(2016, 1, 1, 0, 30, 0, 0, time.FixedZone("z", (zoneHours%13)*3600))
	var opts []FeatureOption
	if withOpts {
		if useAt {
			opts = append(opts, At(at))
			want += "?at=" + at.In(time.UTC).Format("2006-01-02T15:04:05Z")
		} else {
			want += "?"
		}
	}

	reqs := 0
	var got, method string
	srv := httptest.NewServer(http.HandlerFunc(func(w http.ResponseWriter, r *http.Request) {
		reqs++
		method = r.Method
		got = r.URL.Path
		if k == 16 {
			gotQuery = map[string][]string(r.URL.Query())
			got = r.URL.Path // the query is compared after decoding
		}
		if k != 16 && (r.URL.RawQuery != "" || strings.HasSuffix(r.RequestURI, "?")) {
			got += "?" + r.URL.RawQuery
		}
		if status != 200 {
			w.WriteHeader(status)
			return
		}
		var sb strings.Builder
		sb.WriteString(`<osm version="0.6">`)
		for i := 0; i < n; i++ {
			switch elem {
			case "note":
				fmt.Fprintf(&sb, `<note lat="1" lon="2"><id>%d</id></note>`, 10+i)
			default:
				fmt.Fprintf(&sb, `<%s id="%d" version="1"/>`, elem, 10+i)
			}
		}
		sb.WriteString(`</osm>`)
		w.Write([]byte(sb.String()))
	}))
	defer srv.Close()
	ds := &Datasource{BaseURL: srv.URL + "/base", Client: srv.Client()}
	if noClient {
		ds.Client = nil // the default datasource's client is used; everything else stays this datasource's own
	}
	lim := &c20Limiter{reqs: &reqs}
	if limiter {
		ds.Limiter = lim
	}
	ctx := context.Background()
	var err error
	var ids []int64
	switch k {
	case 0:
		var x *osm.Node
		if x, err = ds.Node(ctx, osm.NodeID(id), opts...); x != nil {
			ids = append(ids, int64(x.ID))
		}
	case 1:
		var x *osm.Node
		if x, err = ds.NodeVersion(ctx, osm.NodeID(id), ver); x != nil {
			ids = append(ids, int64(x.ID))
		}
	case 2:
		var xs osm.Nodes
		xs, err = ds.NodeHistory(ctx, osm.NodeID(id))
		for _, x := range xs {
			ids = append(ids, int64(x.ID))
		}
	case 3:
		var xs osm.Ways
		xs, err = ds.NodeWays(ctx, osm.NodeID(id), opts...)
		for _, x := range xs {
			ids = append(ids, int64(x.ID))
		}
	case 4:
		var xs osm.Relations
		xs, err = ds.NodeRelations(ctx, osm.NodeID(id), opts...)
		for _, x := range xs {
			ids = append(ids, int64(x.ID))
		}
	case 5:
		var x *osm.Way
		if x, err = ds.Way(ctx, osm.WayID(id), opts...); x != nil {
			ids = append(ids, int64(x.ID))
		}
	case 6:
		var x *osm.Way
		if x, err = ds.WayVersion(ctx, osm.WayID(id), ver); x != nil {
			ids = append(ids, int64(x.ID))
		}
	case 7:
		var xs osm.Ways
		xs, err = ds.WayHistory(ctx, osm.WayID(id))
		for _, x := range xs {
			ids = append(ids, int64(x.ID))
		}
	case 8:
		var xs osm.Relations
		xs, err = ds.WayRelations(ctx, osm.WayID(id), opts...)
		for _, x := range xs {
			ids = append(ids, int64(x.ID))
		}
	case 9:
		var x *osm.Relation
		if x, err = ds.Relation(ctx, osm.RelationID(id), opts...); x != nil {
			ids = append(ids, int64(x.ID))
		}
	case 10:
		var x *osm.Relation
		if x, err = ds.RelationVersion(ctx, osm.RelationID(id), ver); x != nil {
			ids = append(ids, int64(x.ID))
		}
	case 11:
		var xs osm.Relations
		xs, err = ds.RelationHistory(ctx, osm.RelationID(id))
		for _, x := range xs {
			ids = append(ids, int64(x.ID))
		}
	case 12:
		var xs osm.Relations
		xs, err = ds.RelationRelations(ctx, osm.RelationID(id), opts...)
		for _, x := range xs {
			ids = append(ids, int64(x.ID))
		}
	case 13:
		var x *osm.Note
		if x, err = ds.Note(ctx, osm.NoteID(id)); x != nil {
			ids = append(ids, int64(x.ID))
		}
	case 14:
		var x *osm.User
		if x, err = ds.User(ctx, osm.UserID(id)); x != nil {
			ids = append(ids, int64(x.ID))
		}
	case 15:
		var x *osm.Changeset
		if x, err = ds.Changeset(ctx, osm.ChangesetID(id)); x != nil {
			ids = append(ids, int64(x.ID))
		}
	case 16:
		var xs osm.Notes
		xs, err = ds.NotesSearch(ctx, query)
		for _, x := range xs {
			ids = append(ids, int64(x.ID))
		}
	}
	if k == 16 {
		vAssert(len(gotQuery) == 1 && len(gotQuery["q"]) == 1 && gotQuery["q"][0] == query)
	}
	// exactly one GET to the documented path under the base URL, after the limiter
	vAssert(reqs == 1)
	vAssert(method == "GET")
	vAssert(got == "/base"+want)
	if limiter {
		vAssert(lim.waits == 1 && lim.reqsAtWait == 0)
	}
	// status mapping
	switch status {
	case 200:
		if single && n != 1 {
			vAssert(err != nil && len(ids) == 0)
		} else {
			vAssert(err == nil)
			vAssert(len(ids) == n)
			for i, x := range ids {
				vAssert(x == int64(10+i))
			}
		}
	case 404:
		_, ok := err.(*NotFoundError)
		vAssert(ok && ds.NotFound(err) && len(ids) == 0)
	case 403:
		_, ok := err.(*ForbiddenError)
		vAssert(ok && !ds.NotFound(err) && len(ids) == 0)
	case 410:
		_, ok := err.(*GoneError)
		vAssert(ok && !ds.NotFound(err) && len(ids) == 0)
	case 414:
		_, ok := err.(*RequestURITooLongError)
		vAssert(ok && !ds.NotFound(err) && len(ids) == 0)
	default:
		e, ok := err.(*UnexpectedStatusCodeError)
		vAssert(ok && e.Code == status && !ds.NotFound(err) && len(ids) == 0)
	}
}
