//go:build verif

package osmgeojson

import (
	"time"

	"github.com/paulmach/osm"
)

func c17Abs(x int) int {
	if x < 0 {
		if x == -x {
			return 0
		}
		return -x
	}
	return x
}

// C17: "GeoJSON conversion emits at most one feature per input element,
// carrying the element's type, id, tags and, unless disabled, its metadata and
// relation memberships ...". Checked here: every emitted feature lists exactly
// the relations that have it as a member (ways only count when present).
//
//@ func oracleC17Memberships
//@   props C17
//@   oracle
func oracleC17Memberships(memberSel [][]int, noMembership bool) {
	// three located nodes, two ways over them, up to four route relations whose members are chosen
	// by memberSel: kind = x%3 (node, way, relation), ref = small id (ways 1..3: way 3 is absent)
	o := &osm.OSM{}
	for i := 1; i <= 3; i++ {
		o.Nodes = append(o.Nodes, &osm.Node{ID: osm.NodeID(i), Lat: float64(i), Lon: float64(i), Version: 1})
	}
	for i := 1; i <= 2; i++ {
		o.Ways = append(o.Ways, &osm.Way{ID: osm.WayID(i), Version: 1, Nodes: osm.WayNodes{{ID: 1}, {ID: 2}, {ID: osm.NodeID(i + 1)}},
			Tags: osm.Tags{{Key: "highway", Value: "path"}}})
	}
	nRel := len(memberSel)
	if nRel > 4 {
		nRel = 4
	}
	vAssume(nRel >= 1)
	type key struct {
		t   osm.Type
		ref int64
	}
	want := map[key]int{}
	for r := 1; r <= nRel; r++ {
		rel := &osm.Relation{ID: osm.RelationID(10 + r), Version: 1, Tags: osm.Tags{{Key: "type", Value: "route"}}}
		// every route gets way 1 so that it produces a feature
		sel := append([]int{1}, memberSel[r-1]...)
		for _, x := range sel {
			x = c17Abs(x)
			var m osm.Member
			switch x % 3 {
			case 0:
				m = osm.Member{Type: osm.TypeNode, Ref: int64(x/3%3 + 1)}
			case 1:
				m = osm.Member{Type: osm.TypeWay, Ref: int64(x/3%3 + 1)}
			default:
				m = osm.Member{Type: osm.TypeRelation, Ref: int64(10 + x/3%nRel + 1)}
			}
			rel.Members = append(rel.Members, m)
			if m.Type == osm.TypeWay && m.Ref == 3 {
				continue // way 3 is not part of the data
			}
			want[key{m.Type, m.Ref}]++
		}
		o.Relations = append(o.Relations, rel)
	}
	var opts []Option
	if noMembership {
		opts = append(opts, NoRelationMembership(true))
	}
	fc, err := Convert(o, opts...)
	vAssert(err == nil && fc != nil)
	if fc == nil {
		return
	}
	seen := map[key]bool{}
	for _, f := range fc.Features {
		t, _ := f.Properties["type"].(string)
		id, _ := f.Properties["id"].(int)
		k := key{osm.Type(t), int64(id)}
		vAssert(!seen[k]) // at most one feature per element
		seen[k] = true
		rels, has := f.Properties["relations"].([]*relationSummary)
		if noMembership {
			_, present := f.Properties["relations"]
			vAssert(!present)
			continue
		}
		vAssert(has)
		vAssert(len(rels) == want[k])
	}
	// every route relation with way 1 present yields a feature
	for r := 1; r <= nRel; r++ {
		vAssert(seen[key{osm.TypeRelation, int64(10 + r)}])
	}
}

// C17: "a point for every located node that is not part of a way, or has an
// interesting tag, or is a relation member". A node that is part of a way is
// emitted exactly when one of its tags is interesting, whatever the order of
// its tags (uninteresting keys: osm.UninterestingTags).
//
//@ func oracleC17NodeEmission
//@   props C17
//@   oracle
//@   covers hasInterestingTags
//@   covers osmgeojson.Convert
func oracleC17NodeEmission(start int, nTags int, step int, member bool, loneLocated bool, noMembership bool) {
	keys := []string{"source", "created_by", "note", "amenity", "name", "highway", "fixme", "odbl"}
	var tags osm.Tags
	interesting := false
	st := 2*(c17Abs(step)%4) + 1 // odd: distinct keys
	for i := 0; i < c17Abs(nTags)%7; i++ {
		k := keys[(c17Abs(start)%8+i*st)%len(keys)]
		tags = append(tags, osm.Tag{Key: k, Value: "v"})
		if !osm.UninterestingTags[k] {
			interesting = true
		}
	}
	lone := &osm.Node{ID: 3} // not part of any way; located or not
	if loneLocated {
		lone.Lat, lone.Lon, lone.Version = 3, 3, 1
	}
	o := &osm.OSM{
		Nodes: osm.Nodes{
			{ID: 1, Lat: 1, Lon: 1, Version: 1, Tags: tags},
			{ID: 2, Lat: 2, Lon: 2, Version: 1},
			lone,
		},
		Ways: osm.Ways{{ID: 1, Version: 1, Nodes: osm.WayNodes{{ID: 1}, {ID: 2}}, Tags: osm.Tags{{Key: "highway", Value: "path"}}}},
	}
	if member {
		o.Relations = osm.Relations{{ID: 9, Version: 1, Tags: osm.Tags{{Key: "type", Value: "site"}},
			Members: osm.Members{{Type: osm.TypeNode, Ref: 1, Role: "x"}}}}
	}
	// switching relation memberships off only removes the "relations" property: which nodes are emitted
	// stays the same (a relation member node is still a point)
	var nopts []Option
	if noMembership {
		nopts = append(nopts, NoRelationMembership(true))
	}
	fc, err := Convert(o, nopts...)
	vAssert(err == nil && fc != nil)
	if fc == nil {
		return
	}
	count := map[int]int{}
	for _, f := range fc.Features {
		if f.Properties["type"] == "node" {
			id, ok := f.Properties["id"].(int)
			vAssert(ok)
			count[id]++
		}
	}
	// at most one feature per node; node 2 (plain way node) never; node 3 exactly when located
	want1 := 0
	if interesting || member {
		want1 = 1
	}
	want3 := 0
	if loneLocated {
		want3 = 1
	}
	vAssert(count[1] == want1 && count[2] == 0 && count[3] == want3)
}

// C17: "a line ... with the way's resolvable node coordinates" for every way;
// the one exception the converter makes is a member way of a route relation
// that has no interesting tag of its own (its line is part of the route).
// Whether the route carries the same tags as the way makes no difference.
//
//@ func oracleC17RouteWays
//@   props C17
//@   oracle
//@   covers buildRouteLineString
//@   covers osmgeojson.Convert
func oracleC17RouteWays(start int, nTags int, step int, sameTags bool, member bool) {
	keys := []string{"source", "created_by", "note", "name", "highway", "ref", "fixme", "odbl"}
	var tags osm.Tags
	interesting := false
	st := 2*(c17Abs(step)%4) + 1
	for i := 0; i < c17Abs(nTags)%5; i++ {
		k := keys[(c17Abs(start)%8+i*st)%len(keys)]
		tags = append(tags, osm.Tag{Key: k, Value: "v"})
		if !osm.UninterestingTags[k] {
			interesting = true
		}
	}
	rtags := osm.Tags{{Key: "type", Value: "route"}}
	if sameTags {
		rtags = append(rtags, tags...)
	}
	rel := &osm.Relation{ID: 100, Version: 1, Tags: rtags, Members: osm.Members{{Type: osm.TypeWay, Ref: 11, Role: ""}}}
	if member {
		rel.Members = append(rel.Members, osm.Member{Type: osm.TypeWay, Ref: 10})
	}
	o := &osm.OSM{
		Nodes: osm.Nodes{
			{ID: 1, Lat: 1, Lon: 1, Version: 1}, {ID: 2, Lat: 2, Lon: 2, Version: 1}, {ID: 3, Lat: 3, Lon: 3, Version: 1},
		},
		Ways: osm.Ways{
			{ID: 10, Version: 1, Nodes: osm.WayNodes{{ID: 1}, {ID: 2}}, Tags: tags},
			{ID: 11, Version: 1, Nodes: osm.WayNodes{{ID: 2}, {ID: 3}}, Tags: osm.Tags{{Key: "highway", Value: "path"}}},
		},
		Relations: osm.Relations{rel},
	}
	fc, err := Convert(o)
	vAssert(err == nil && fc != nil)
	if fc == nil {
		return
	}
	ways := map[int]int{}
	rels := 0
	for _, f := range fc.Features {
		switch f.Properties["type"] {
		case "way":
			id, _ := f.Properties["id"].(int)
			ways[id]++
		case "relation":
			rels++
		}
	}
	want10 := 1
	if member && !interesting {
		want10 = 0
	}
	vAssert(rels == 1 && ways[11] == 1 && ways[10] == want10)
}

// C17: "carrying the element's type, id, tags and, unless disabled, its
// metadata": the meta property of a feature has exactly the keys of the
// element's non-zero metadata fields (timestamp, version, changeset, user,
// uid), with their values, and is absent when metadata is disabled.
//
//@ func oracleC17Meta
//@   props C17
//@   oracle
//@   covers addMetaProperties
func oracleC17Meta(userSet bool, uidSet bool, versionSet bool, csSet bool, tsSet bool, kind int, noMeta bool) {
	var user string
	var uid osm.UserID
	var version int
	var cs osm.ChangesetID
	var ts time.Time
	if userSet {
		user = "u"
	}
	if uidSet {
		uid = 5
	}
	if versionSet {
		version = 3
	}
	if csSet {
		cs = 9
	}
	if tsSet {
		ts = time.Date(2015, 1, 2, 3, 4, 5, 0, time.UTC)
	}
	o := &osm.OSM{
		Nodes: osm.Nodes{{ID: 1, Lat: 1, Lon: 1, Version: 1}, {ID: 2, Lat: 2, Lon: 2, Version: 1}},
		Ways:  osm.Ways{{ID: 10, Version: 1, Nodes: osm.WayNodes{{ID: 1}, {ID: 2}}, Tags: osm.Tags{{Key: "highway", Value: "path"}}}},
	}
	want := ""
	switch c17Abs(kind) % 3 {
	case 0: // a lone located node
		o.Nodes = append(o.Nodes, &osm.Node{ID: 3, Lat: 3, Lon: 3, User: user, UserID: uid, Version: version, ChangesetID: cs, Timestamp: ts})
		want = "node"
	case 1:
		w := o.Ways[0]
		w.User, w.UserID, w.Version, w.ChangesetID, w.Timestamp = user, uid, version, cs, ts
		want = "way"
	default:
		o.Relations = osm.Relations{{ID: 100, User: user, UserID: uid, Version: version, ChangesetID: cs, Timestamp: ts,
			Tags: osm.Tags{{Key: "type", Value: "route"}}, Members: osm.Members{{Type: osm.TypeWay, Ref: 10}}}}
		want = "relation"
	}
	var opts []Option
	if noMeta {
		opts = append(opts, NoMeta(true))
	}
	fc, err := Convert(o, opts...)
	vAssert(err == nil && fc != nil)
	if fc == nil {
		return
	}
	found := 0
	for _, f := range fc.Features {
		if f.Properties["type"] != want || (want == "node" && f.Properties["id"] != 3) {
			continue
		}
		found++
		meta, has := f.Properties["meta"].(map[string]interface{})
		if noMeta {
			vAssert(!has && f.Properties["meta"] == nil)
			continue
		}
		vAssert(has)
		_, hu := meta["user"]
		_, hi := meta["uid"]
		_, hv := meta["version"]
		_, hc := meta["changeset"]
		_, ht := meta["timestamp"]
		vAssert(hu == userSet && hi == uidSet && hv == versionSet && hc == csSet && ht == tsSet)
		vAssert(len(meta) == c17Count(userSet, uidSet, versionSet, csSet, tsSet))
		if userSet {
			vAssert(meta["user"] == user)
		}
		if uidSet {
			vAssert(meta["uid"] == uid)
		}
		if versionSet {
			vAssert(meta["version"] == version)
		}
		if csSet {
			vAssert(meta["changeset"] == cs)
		}
	}
	vAssert(found == 1)
}

func c17Count(bs ...bool) int {
	n := 0
	for _, b := range bs {
		if b {
			n++
		}
	}
	return n
}
