//go:build verif

package osmgeojson

// Marker functions understood by govc. (Replaced by recording versions
// during replay.)
func vAssert(b bool) {}
func vAssume(b bool) {}
func vCover(b bool)  {}
