//go:build verif

package replication

import (
	"context"
	"fmt"
	"io"
	"net/http"
	"strings"
	"time"
)

// Executable transcription of the C19 statement: a map-backed directory of
// state files with increasing timestamps and arbitrary gaps; the lookup must
// terminate (request cap) and return the first state at or after t, or the
// newest state when t is after all of them.

type c19capExceeded struct{}

//@ func oracleC19Search
//@   props C19
//@   oracle
func oracleC19Search(present []bool, minPresent bool, tIdx int, half bool) {
	base := time.Date(2016, 1, 1, 0, 0, 0, 0, time.UTC)
	// sequence numbers 1..n, number n (the newest) always exists
	n := len(present) + 2
	if n > 12 {
		n = 12
	}
	ex := map[uint64]bool{uint64(n): true}
	for i := 0; i < n-2 && i < len(present); i++ {
		if present[i] {
			ex[uint64(i+2)] = true
		}
	}
	if minPresent {
		ex[1] = true
	}
	state := func(k uint64) *State { return &State{SeqNum: k, Timestamp: base.Add(time.Duration(k) * time.Hour)} }
	calls := 0
	s := &stater{
		Min:     1,
		Current: func(ctx context.Context) (*State, error) { return state(uint64(n)), nil },
		State: func(ctx context.Context, k uint64) (*State, error) {
			calls++
			if calls > 500 {
				panic(c19capExceeded{})
			}
			if ex[k] {
				return state(k), nil
			}
			return nil, &UnexpectedStatusCodeError{Code: http.StatusNotFound}
		},
	}
	if tIdx < 0 {
		tIdx = -tIdx
	}
	ti := tIdx % (n + 2) // 0 .. n+1 hours
	t := base.Add(time.Duration(ti) * time.Hour)
	if half {
		t = t.Add(30 * time.Minute)
	}
	// expected: first existing state with timestamp >= t, else the newest
	want := uint64(n)
	for k := uint64(1); k <= uint64(n); k++ {
		if ex[k] && !state(k).Timestamp.Before(t) {
			want = k
			break
		}
	}
	// the known finding concerns directories whose first state file (Min) is missing
	vAssume(minPresent)
	var got *State
	var err error
	terminated := func() (ok bool) {
		defer func() {
			if r := recover(); r != nil {
				if _, is := r.(c19capExceeded); is {
					ok = false
					return
				}
				panic(r)
			}
		}()
		got, err = searchTimestamp(context.Background(), s, t)
		return true
	}()
	vAssert(terminated)
	if !terminated {
		return
	}
	vAssert(err == nil && got != nil)
	if got != nil {
		vAssert(got.SeqNum == want)
	}
}

type c19RT struct {
	body string
	path string
	n    int
}

func (rt *c19RT) RoundTrip(r *http.Request) (*http.Response, error) {
	rt.n++
	rt.path = r.URL.Path
	return &http.Response{StatusCode: 200, Body: io.NopCloser(strings.NewReader(rt.body)), Header: http.Header{}, Request: r}, nil
}

// C19: "State files and sequence-numbered URLs are read and formed exactly as
// the planet server lays them out (three-level zero-padded paths, ..., the
// changeset state's off-by-one sequence)": the state of changeset file n is
// state n whether the file's content says n (early files) or n-1 (since
// 2008004); the current state is one more than state.yaml says.
//
//@ func oracleC19ChangesetState
//@   props C19
//@   oracle
//@   covers fetchChangesetState
func oracleC19ChangesetState(nSel int, early bool, current bool) {
	if nSel < 0 {
		nSel = -(nSel + 1)
	}
	n := uint64(nSel%3000000 + 1)
	inFile := n - 1
	if early {
		inFile = n
	}
	rt := &c19RT{body: fmt.Sprintf("---\nlast_run: 2016-09-07 10:45:01.000000000 +00:00\nsequence: %d\n", inFile)}
	ds := &Datasource{BaseURL: "http://example.test", Client: &http.Client{Transport: rt}}
	if current {
		sn, s, err := ds.CurrentChangesetState(context.Background())
		vAssert(err == nil && s != nil && rt.n == 1)
		if s != nil {
			vAssert(s.SeqNum == inFile+1 && uint64(sn) == inFile+1)
		}
		vAssert(strings.HasSuffix(rt.path, "/replication/changesets/state.yaml"))
		return
	}
	s, err := ds.ChangesetState(context.Background(), ChangesetSeqNum(n))
	vAssert(err == nil && s != nil && rt.n == 1)
	if s != nil {
		vAssert(s.SeqNum == n)
	}
	want := fmt.Sprintf("/replication/changesets/%03d/%03d/%03d.state.txt", n/1000000, (n/1000)%1000, n%1000)
	vAssert(rt.path == want)
}
