//go:build verif

package osmpbf

// Support for the executable oracles of the osmpbf properties: a small model
// of a PBF file, an encoder written against the format definition
// (osmformat.proto / fileformat.proto, via the generated message types and
// proto.Marshal -- independent of the decoder under verification), and the
// objects the format defines for that model.

import (
	"bytes"
	"compress/zlib"
	"context"
	"encoding/binary"
	"time"

	"github.com/paulmach/osm"
	pb "github.com/paulmach/osm/osmpbf/internal/osmpbf"
	"google.golang.org/protobuf/proto"
)

type PbfTag struct{ K, V int }

type PbfNode struct {
	ID, Lat, Lon     int
	Ver, TS, CS, UID int
	User             int
	Vis              bool
	Tags             []PbfTag
}

type PbfWay struct {
	ID               int
	Refs             []int
	HasInfo          bool
	Ver, TS, CS, UID int
	User             int
	Vis              bool
	HasVis           bool
	HasLoc           bool
	Tags             []PbfTag
}

type PbfMember struct{ Type, Ref, Role int }

type PbfRel struct {
	ID               int
	Members          []PbfMember
	HasInfo          bool
	Ver, TS, CS, UID int
	User             int
	Tags             []PbfTag
}

type PbfBlock struct {
	Nodes     []PbfNode
	Ways      []PbfWay
	Rels      []PbfRel
	DenseInfo bool // dense info present
	HasVis    bool // visible column present
	Gran      int  // 0 = default (absent)
	LatOff    int
	LonOff    int
	DateGran  int // 0 = default (absent)
	Zlib      bool
	// damage (reader-detectable inconsistencies inside the block)
	ShortStrings bool // string table cut to its first entry: every reference points outside it
	ExtraColumn  bool // parallel columns of different length (way lat longer than refs, one role more than types)
	ShortRawSize bool // zlib blob whose raw_size is the length of the block without its last group (a valid prefix)
	PlainNodes   bool // a group of plain (non-dense) Node messages: valid PBF this decoder does not support
	CutStrings   int  // > 0: string table cut to its first CutStrings entries (references equal to the length are the boundary case)
}

type PbfFile struct {
	Blocks  []PbfBlock
	BBox    bool
	Program int
}

var pbfStrings = []string{"", "name", "highway", "residential", "Main St", "building", "yes", "alice", "bob", "outer", "inner", "ref"}

func pbfAbs(x int) int {
	if x < 0 {
		return -x
	}
	return x
}

// pbfCS: changeset ids are 64-bit: some of the generated ones do not fit 32 bits
func pbfCS(cs int) int64 {
	v := int64(pbfAbs(cs))
	if v%4 == 3 {
		v += 1 << 33
	}
	return v
}

func pbfStr(i int) int { return pbfAbs(i)%(len(pbfStrings)-1) + 1 }

func pbfTagsKV(tags []PbfTag) (osm.Tags, []uint32, []uint32) {
	var out osm.Tags
	var ks, vs []uint32
	for _, t := range tags {
		k, v := pbfStr(t.K), pbfStr(t.V)
		out = append(out, osm.Tag{Key: pbfStrings[k], Value: pbfStrings[v]})
		ks, vs = append(ks, uint32(k)), append(vs, uint32(v))
	}
	return out, ks, vs
}

func pbfTime(ts int, dateGran int) time.Time {
	if dateGran == 0 {
		dateGran = 1000
	}
	return time.Unix(0, int64(ts)*int64(dateGran)*int64(time.Millisecond)).UTC()
}

// pbfBlockObjects: the objects the format defines for a block, in file order.
func pbfBlockObjects(b PbfBlock) []osm.Object {
	gran := int64(b.Gran)
	if gran == 0 {
		gran = 100
	}
	var out []osm.Object
	for _, n := range b.Nodes {
		o := &osm.Node{ID: osm.NodeID(n.ID), Visible: true,
			Lat: 1e-9 * float64(int64(b.LatOff)+gran*int64(n.Lat)),
			Lon: 1e-9 * float64(int64(b.LonOff)+gran*int64(n.Lon))}
		if b.DenseInfo {
			o.Version, o.Timestamp, o.ChangesetID, o.UserID = pbfAbs(n.Ver), pbfTime(pbfAbs(n.TS), b.DateGran), osm.ChangesetID(pbfCS(n.CS)), osm.UserID(pbfAbs(n.UID))
			o.User = pbfStrings[pbfStr(n.User)]
			if b.HasVis {
				o.Visible = n.Vis
			}
		}
		o.Tags, _, _ = pbfTagsKV(n.Tags)
		out = append(out, o)
	}
	for _, w := range b.Ways {
		o := &osm.Way{ID: osm.WayID(pbfAbs(w.ID)), Visible: true}
		if w.HasInfo {
			o.Version, o.Timestamp, o.ChangesetID, o.UserID = pbfAbs(w.Ver), pbfTime(pbfAbs(w.TS), b.DateGran), osm.ChangesetID(pbfCS(w.CS)), osm.UserID(pbfAbs(w.UID))
			o.User = pbfStrings[pbfStr(w.User)]
			if w.HasVis {
				o.Visible = w.Vis
			}
		}
		for i, r := range w.Refs {
			wn := osm.WayNode{ID: osm.NodeID(r)}
			if w.HasLoc {
				wn.Lat = 1e-9 * float64(int64(b.LatOff)+gran*int64(r+i))
				wn.Lon = 1e-9 * float64(int64(b.LonOff)+gran*int64(r-i))
			}
			o.Nodes = append(o.Nodes, wn)
		}
		o.Tags, _, _ = pbfTagsKV(w.Tags)
		out = append(out, o)
	}
	for _, r := range b.Rels {
		o := &osm.Relation{ID: osm.RelationID(pbfAbs(r.ID)), Visible: true}
		if r.HasInfo {
			o.Version, o.Timestamp, o.ChangesetID, o.UserID = pbfAbs(r.Ver), pbfTime(pbfAbs(r.TS), b.DateGran), osm.ChangesetID(pbfCS(r.CS)), osm.UserID(pbfAbs(r.UID))
			o.User = pbfStrings[pbfStr(r.User)]
		}
		for _, m := range r.Members {
			t := []osm.Type{osm.TypeNode, osm.TypeWay, osm.TypeRelation}[pbfAbs(m.Type)%3]
			o.Members = append(o.Members, osm.Member{Type: t, Ref: int64(m.Ref), Role: pbfStrings[pbfStr(m.Role)]})
		}
		o.Tags, _, _ = pbfTagsKV(r.Tags)
		out = append(out, o)
	}
	return out
}

func pbfDelta(vals []int64) []int64 {
	out := make([]int64, len(vals))
	var prev int64
	for i, v := range vals {
		out[i] = v - prev
		prev = v
	}
	return out
}

func pbfInfo(ver, ts, cs, uid, user int, vis *bool) *pb.Info {
	return &pb.Info{Version: proto.Int32(int32(pbfAbs(ver))), Timestamp: proto.Int64(int64(pbfAbs(ts))), Changeset: proto.Int64(pbfCS(cs)),
		Uid: proto.Int32(int32(pbfAbs(uid))), UserSid: proto.Uint32(uint32(pbfStr(user))), Visible: vis}
}

func pbfPrimitiveBlock(b PbfBlock) []byte {
	blk := &pb.PrimitiveBlock{Stringtable: &pb.StringTable{S: pbfStrings}}
	if b.ShortStrings {
		blk.Stringtable = &pb.StringTable{S: pbfStrings[:1]}
	}
	if b.CutStrings > 0 && b.CutStrings < len(pbfStrings) {
		blk.Stringtable = &pb.StringTable{S: pbfStrings[:b.CutStrings]}
	}
	if b.CutStrings < 0 {
		blk.Stringtable = nil // the string table field is missing altogether (partial message)
	}
	if b.Gran != 0 {
		blk.Granularity = proto.Int32(int32(b.Gran))
	}
	if b.DateGran != 0 {
		blk.DateGranularity = proto.Int32(int32(b.DateGran))
	}
	if b.LatOff != 0 {
		blk.LatOffset = proto.Int64(int64(b.LatOff))
	}
	if b.LonOff != 0 {
		blk.LonOffset = proto.Int64(int64(b.LonOff))
	}
	if b.PlainNodes {
		id, lat, lon := int64(1), int64(2), int64(3)
		blk.Primitivegroup = append(blk.Primitivegroup, &pb.PrimitiveGroup{Nodes: []*pb.Node{{Id: &id, Lat: &lat, Lon: &lon}}})
	}
	if len(b.Nodes) > 0 {
		d := &pb.DenseNodes{}
		var ids, lats, lons, tss, css []int64
		var uids, usids []int32
		anyTags := false
		for _, n := range b.Nodes {
			if len(n.Tags) > 0 {
				anyTags = true
			}
		}
		di := &pb.DenseInfo{}
		for _, n := range b.Nodes {
			ids, lats, lons = append(ids, int64(n.ID)), append(lats, int64(n.Lat)), append(lons, int64(n.Lon))
			tss, css = append(tss, int64(pbfAbs(n.TS))), append(css, pbfCS(n.CS))
			uids, usids = append(uids, int32(pbfAbs(n.UID))), append(usids, int32(pbfStr(n.User)))
			di.Version = append(di.Version, int32(pbfAbs(n.Ver)))
			di.Visible = append(di.Visible, n.Vis)
			if anyTags {
				_, ks, vs := pbfTagsKV(n.Tags)
				for i := range ks {
					d.KeysVals = append(d.KeysVals, int32(ks[i]), int32(vs[i]))
				}
				d.KeysVals = append(d.KeysVals, 0)
			}
		}
		d.Id, d.Lat, d.Lon = pbfDelta(ids), pbfDelta(lats), pbfDelta(lons)
		if b.DenseInfo {
			di.Timestamp, di.Changeset = pbfDelta(tss), pbfDelta(css)
			var pu, ps int32
			for i := range uids {
				di.Uid = append(di.Uid, uids[i]-pu)
				di.UserSid = append(di.UserSid, usids[i]-ps)
				pu, ps = uids[i], usids[i]
			}
			if !b.HasVis {
				di.Visible = nil
			}
			d.Denseinfo = di
		}
		blk.Primitivegroup = append(blk.Primitivegroup, &pb.PrimitiveGroup{Dense: d})
	}
	if len(b.Ways) > 0 {
		g := &pb.PrimitiveGroup{}
		gran := int64(b.Gran)
		_ = gran
		for _, w := range b.Ways {
			pw := &pb.Way{Id: proto.Int64(int64(pbfAbs(w.ID)))}
			_, pw.Keys, pw.Vals = pbfTagsKV(w.Tags)
			if w.HasInfo {
				var vis *bool
				if w.HasVis {
					vis = proto.Bool(w.Vis)
				}
				pw.Info = pbfInfo(w.Ver, w.TS, w.CS, w.UID, w.User, vis)
			}
			var refs, lats, lons []int64
			for i, r := range w.Refs {
				refs = append(refs, int64(r))
				lats, lons = append(lats, int64(r+i)), append(lons, int64(r-i))
			}
			pw.Refs = pbfDelta(refs)
			if w.HasLoc {
				pw.Lat, pw.Lon = pbfDelta(lats), pbfDelta(lons)
			}
			if b.ExtraColumn {
				pw.Lat = append(pbfDelta(lats), 1, 1)
			}
			g.Ways = append(g.Ways, pw)
		}
		blk.Primitivegroup = append(blk.Primitivegroup, g)
	}
	if len(b.Rels) > 0 {
		g := &pb.PrimitiveGroup{}
		for _, r := range b.Rels {
			pr := &pb.Relation{Id: proto.Int64(int64(pbfAbs(r.ID)))}
			_, pr.Keys, pr.Vals = pbfTagsKV(r.Tags)
			if r.HasInfo {
				pr.Info = pbfInfo(r.Ver, r.TS, r.CS, r.UID, r.User, nil)
			}
			var mids []int64
			for _, m := range r.Members {
				pr.RolesSid = append(pr.RolesSid, int32(pbfStr(m.Role)))
				mids = append(mids, int64(m.Ref))
				pr.Types = append(pr.Types, pb.Relation_MemberType(pbfAbs(m.Type)%3))
			}
			pr.Memids = pbfDelta(mids)
			if b.ExtraColumn {
				pr.RolesSid = append(pr.RolesSid, 1)
				pr.Memids = append(pr.Memids, 1)
			}
			g.Relations = append(g.Relations, pr)
		}
		blk.Primitivegroup = append(blk.Primitivegroup, g)
	}
	data, err := proto.MarshalOptions{AllowPartial: true}.Marshal(blk)
	if err != nil {
		panic(err)
	}
	return data
}

// pbfPrefixLen: length of the block's encoding up to and including its last but one primitive group
// (string table and groups are fields 1 and 2 and come first): cutting there leaves a valid block.
func pbfPrefixLen(b PbfBlock) int {
	full := &pb.PrimitiveBlock{}
	if err := proto.Unmarshal(pbfPrimitiveBlock(b), full); err != nil {
		panic(err)
	}
	if len(full.Primitivegroup) < 2 {
		return -1
	}
	pre := &pb.PrimitiveBlock{Stringtable: full.Stringtable, Primitivegroup: full.Primitivegroup[:len(full.Primitivegroup)-1]}
	d, err := proto.Marshal(pre)
	if err != nil {
		panic(err)
	}
	return len(d)
}

func pbfFileBlockSized(typ string, raw []byte, declared int) []byte {
	blob := &pb.Blob{}
	var zb bytes.Buffer
	zw := zlib.NewWriter(&zb)
	zw.Write(raw)
	zw.Close()
	blob.ZlibData = zb.Bytes()
	blob.RawSize = proto.Int32(int32(declared))
	bd, err := proto.Marshal(blob)
	if err != nil {
		panic(err)
	}
	hd, err := proto.Marshal(&pb.BlobHeader{Type: proto.String(typ), Datasize: proto.Int32(int32(len(bd)))})
	if err != nil {
		panic(err)
	}
	out := make([]byte, 4)
	binary.BigEndian.PutUint32(out, uint32(len(hd)))
	out = append(out, hd...)
	return append(out, bd...)
}

func pbfFileBlock(typ string, raw []byte, useZlib bool) []byte {
	blob := &pb.Blob{}
	if useZlib {
		var zb bytes.Buffer
		zw := zlib.NewWriter(&zb)
		zw.Write(raw)
		zw.Close()
		blob.ZlibData = zb.Bytes()
		blob.RawSize = proto.Int32(int32(len(raw)))
	} else {
		blob.Raw = raw
	}
	bd, err := proto.Marshal(blob)
	if err != nil {
		panic(err)
	}
	hd, err := proto.Marshal(&pb.BlobHeader{Type: proto.String(typ), Datasize: proto.Int32(int32(len(bd)))})
	if err != nil {
		panic(err)
	}
	out := make([]byte, 4)
	binary.BigEndian.PutUint32(out, uint32(len(hd)))
	out = append(out, hd...)
	return append(out, bd...)
}

// pbfNormalize keeps the model within what the oracles exercise.
func pbfNormalize(f *PbfFile) {
	if len(f.Blocks) > 3 {
		f.Blocks = f.Blocks[:3]
	}
	for bi := range f.Blocks {
		b := &f.Blocks[bi]
		b.ShortStrings, b.ExtraColumn, b.PlainNodes, b.ShortRawSize = false, false, false, false
		b.CutStrings = 0
		b.Gran, b.DateGran = pbfAbs(b.Gran)*50, pbfAbs(b.DateGran)*500
		// ids ascending and distinct per block so that every object is identifiable
		for i := range b.Nodes {
			b.Nodes[i].ID = 100*bi + 10*(i+1) + pbfAbs(b.Nodes[i].ID)%5
		}
		for i := range b.Ways {
			b.Ways[i].ID = 1000 + 100*bi + i
		}
		for i := range b.Rels {
			b.Rels[i].ID = 2000 + 100*bi + i
		}
	}
}

// pbfBuild returns the file bytes, the offsets at which each block starts
// (index 0 = the header block, then one per data block, then the total
// length), and the expected objects of each data block.
func pbfBuild(f PbfFile) (data []byte, starts []int, objs [][]osm.Object) {
	hb := &pb.HeaderBlock{RequiredFeatures: []string{"OsmSchema-V0.6", "DenseNodes"}, Writingprogram: proto.String(pbfStrings[pbfStr(f.Program)])}
	if f.BBox {
		hb.Bbox = &pb.HeaderBBox{Left: proto.Int64(-1000000000), Right: proto.Int64(2000000000), Top: proto.Int64(3000000000), Bottom: proto.Int64(-4000000000)}
	}
	hraw, err := proto.Marshal(hb)
	if err != nil {
		panic(err)
	}
	starts = append(starts, 0)
	data = append(data, pbfFileBlock("OSMHeader", hraw, false)...)
	for _, b := range f.Blocks {
		starts = append(starts, len(data))
		if b.ShortRawSize {
			data = append(data, pbfFileBlockSized("OSMData", pbfPrimitiveBlock(b), pbfPrefixLen(b))...)
		} else {
			data = append(data, pbfFileBlock("OSMData", pbfPrimitiveBlock(b), b.Zlib)...)
		}
		objs = append(objs, pbfBlockObjects(b))
	}
	starts = append(starts, len(data))
	return
}

type pbfScanResult struct {
	Objects []osm.Object
	Err     error
	Hung    bool
	Panic   interface{}
}

// pbfScan runs a scanner over data to the end (or until stop returns true) with a watchdog.
func pbfScan(data []byte, procs int, configure func(*Scanner), stopAfter int) pbfScanResult {
	ch := make(chan pbfScanResult, 1)
	go func() {
		var res pbfScanResult
		defer func() {
			if r := recover(); r != nil {
				res.Panic = r
			}
			ch <- res
		}()
		s := New(context.Background(), bytes.NewReader(data), procs)
		if configure != nil {
			configure(s)
		}
		for s.Scan() {
			res.Objects = append(res.Objects, s.Object())
			if stopAfter > 0 && len(res.Objects) >= stopAfter {
				break
			}
		}
		res.Err = s.Err()
		s.Close()
	}()
	select {
	case r := <-ch:
		return r
	case <-time.After(5 * time.Second):
		return pbfScanResult{Hung: true}
	}
}

func pbfNear(a, b float64) bool {
	d := a - b
	return d < 1e-10 && d > -1e-10
}

func pbfTagsEqual(a, b osm.Tags) bool {
	if len(a) != len(b) {
		return false
	}
	for i := range a {
		if a[i] != b[i] {
			return false
		}
	}
	return true
}

// pbfSame compares a decoded object with the expected one, field for field.
func pbfSame(got, want osm.Object) bool {
	switch w := want.(type) {
	case *osm.Node:
		g, ok := got.(*osm.Node)
		return ok && g.ID == w.ID && pbfNear(g.Lat, w.Lat) && pbfNear(g.Lon, w.Lon) && g.Version == w.Version && g.Timestamp.Equal(w.Timestamp) &&
			g.ChangesetID == w.ChangesetID && g.UserID == w.UserID && g.User == w.User && g.Visible == w.Visible && pbfTagsEqual(g.Tags, w.Tags)
	case *osm.Way:
		g, ok := got.(*osm.Way)
		if !ok || g.ID != w.ID || g.Version != w.Version || !g.Timestamp.Equal(w.Timestamp) || g.ChangesetID != w.ChangesetID || g.UserID != w.UserID ||
			g.User != w.User || g.Visible != w.Visible || !pbfTagsEqual(g.Tags, w.Tags) || len(g.Nodes) != len(w.Nodes) {
			return false
		}
		for i := range w.Nodes {
			if g.Nodes[i].ID != w.Nodes[i].ID || !pbfNear(g.Nodes[i].Lat, w.Nodes[i].Lat) || !pbfNear(g.Nodes[i].Lon, w.Nodes[i].Lon) {
				return false
			}
		}
		return true
	case *osm.Relation:
		g, ok := got.(*osm.Relation)
		if !ok || g.ID != w.ID || g.Version != w.Version || !g.Timestamp.Equal(w.Timestamp) || g.ChangesetID != w.ChangesetID || g.UserID != w.UserID ||
			g.User != w.User || g.Visible != w.Visible || !pbfTagsEqual(g.Tags, w.Tags) || len(g.Members) != len(w.Members) {
			return false
		}
		for i := range w.Members {
			if g.Members[i].Type != w.Members[i].Type || g.Members[i].Ref != w.Members[i].Ref || g.Members[i].Role != w.Members[i].Role {
				return false
			}
		}
		return true
	}
	return false
}

// pbfMaxRef: the largest string table index the block refers to (0 if it refers to none).
func pbfMaxRef(b PbfBlock) int {
	m := 0
	up := func(i int) {
		if i > m {
			m = i
		}
	}
	tags := func(ts []PbfTag) {
		for _, t := range ts {
			up(pbfStr(t.K))
			up(pbfStr(t.V))
		}
	}
	for _, n := range b.Nodes {
		tags(n.Tags)
		if b.DenseInfo {
			up(pbfStr(n.User))
		}
	}
	for _, w := range b.Ways {
		tags(w.Tags)
		if w.HasInfo {
			up(pbfStr(w.User))
		}
	}
	for _, r := range b.Rels {
		tags(r.Tags)
		if r.HasInfo {
			up(pbfStr(r.User))
		}
		for _, mb := range r.Members {
			up(pbfStr(mb.Role))
		}
	}
	return m
}
