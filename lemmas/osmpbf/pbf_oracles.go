//go:build verif

package osmpbf

import (
	"context"
	"io"
	"time"

	"github.com/paulmach/osm"
)

func pbfFlatten(objs [][]osm.Object, upto int) []osm.Object {
	var out []osm.Object
	for i := 0; i < upto && i < len(objs); i++ {
		out = append(out, objs[i]...)
	}
	return out
}

// C01: "Scanning any valid OSM PBF stream yields exactly the nodes, ways and
// relations it encodes, in file order, with every field ... equal to the value
// the PBF format defines."
//
//@ func oracleC01Decode
//@   props C01 C02
//@   oracle
func oracleC01Decode(f PbfFile, procs int) {
	pbfNormalize(&f)
	data, _, objs := pbfBuild(f)
	want := pbfFlatten(objs, len(objs))
	res := pbfScan(data, pbfAbs(procs)%5+1, nil, 0)
	vAssert(!res.Hung && res.Panic == nil)
	vAssert(res.Err == nil)
	vAssert(len(res.Objects) == len(want))
	for i := range want {
		if i < len(res.Objects) {
			vAssert(pbfSame(res.Objects[i], want[i]))
		}
	}
}

// C06: "If a PBF stream is cut at any byte offset, the scan yields exactly the
// objects of the complete blocks before the cut and then stops, reporting
// success only when the cut falls on a block boundary and an error otherwise."
//
//@ func oracleC06Truncation
//@   props C06
//@   oracle
func oracleC06Truncation(f PbfFile, cutSel int, procs int) {
	pbfNormalize(&f)
	data, starts, objs := pbfBuild(f)
	cut := pbfAbs(cutSel) % (len(data) + 1)
	// bias towards the interesting offsets right after a length prefix / header
	if cutSel%3 == 0 && len(starts) > 1 {
		k := pbfAbs(cutSel/3) % (len(starts) - 1)
		cut = starts[k] + 4
		if cutSel%2 == 0 {
			hs := int(data[starts[k]+3]) // header sizes are < 256 here
			cut = starts[k] + 4 + hs
		}
	}
	complete := 0 // number of complete data blocks before the cut
	boundary := false
	for i, s := range starts {
		if s <= cut && i >= 2 {
			complete = i - 1
		}
		if s == cut {
			boundary = true
		}
	}
	res := pbfScan(data[:cut], pbfAbs(procs)%3+1, nil, 0)
	vAssert(!res.Hung)
	vAssert(res.Panic == nil)
	want := pbfFlatten(objs, complete)
	vAssert(len(res.Objects) == len(want))
	for i := range want {
		if i < len(res.Objects) {
			vAssert(pbfSame(res.Objects[i], want[i]))
		}
	}
	vAssert((res.Err == nil) == boundary)
}

// C06 (damage): a negative or oversized block size, an unknown blob encoding
// and out-of-range string references end the scan with an error, never a crash.
//
//@ func oracleC06Damage
//@   props C06
//@   oracle
func oracleC06Damage(f PbfFile, kind int) {
	pbfNormalize(&f)
	vAssume(len(f.Blocks) > 0)
	data, starts, _ := pbfBuild(f)
	k := len(starts) - 2 // last data block
	hs := int(data[starts[k]+3])
	hdr := data[starts[k]+4 : starts[k]+4+hs]
	// the datasize varint is the last field of our blob headers: find its key (0x18)
	pos := -1
	for i := len(hdr) - 2; i >= 0; i-- {
		if hdr[i] == 0x18 {
			pos = i
			break
		}
	}
	vAssume(pos >= 0)
	mut := append([]byte{}, data[:starts[k]+4+pos+1]...)
	switch pbfAbs(kind) % 2 {
	case 0: // datasize = -1 (ten-byte varint)
		mut = append(mut, 0xff, 0xff, 0xff, 0xff, 0xff, 0xff, 0xff, 0xff, 0xff, 0x01)
	default: // datasize = 64 MiB
		mut = append(mut, 0x80, 0x80, 0x80, 0x20)
	}
	newHs := pos + 1 + len(mut) - (starts[k] + 4 + pos + 1)
	mut[starts[k]+3] = byte(newHs)
	mut = append(mut, data[starts[k]+4+hs:]...)
	res := pbfScan(mut, 1, nil, 0)
	vAssert(!res.Hung)
	vAssert(res.Panic == nil)
	vAssert(res.Err != nil)
}

type pbfCountingReader struct {
	data []byte
	pos  int
}

func (r *pbfCountingReader) Read(p []byte) (int, error) {
	if r.pos >= len(r.data) {
		return 0, io.EOF
	}
	n := copy(p, r.data[r.pos:])
	r.pos += n
	return n, nil
}

// C07: "A PBF ... scan can be stopped at any moment by Close ...: the call
// returns without consuming the rest of the input, every later Scan returns
// false, and Err reports ... the scanner-closed error after Close."
//
//@ func oracleC07Close
//@   props C07
//@   oracle
func oracleC07Close(b PbfBlock, k int, procs int) {
	f := PbfFile{}
	if len(b.Nodes) == 0 {
		b.Nodes = []PbfNode{{ID: 1}}
	}
	b.Ways, b.Rels = nil, nil
	for i := 0; i < 80; i++ {
		f.Blocks = append(f.Blocks, b)
	}
	data, _, _ := pbfBuild(f)
	r := &pbfCountingReader{data: data}
	s := New(context.Background(), r, pbfAbs(procs)%3+1)
	stop := pbfAbs(k) % 3
	n := 0
	for n < stop && s.Scan() {
		n++
	}
	done := make(chan struct{})
	go func() { s.Close(); close(done) }()
	select {
	case <-done:
	case <-time.After(5 * time.Second):
		vAssert(false) // Close hangs
		return
	}
	vAssert(r.pos < len(data)) // the rest of the input was not consumed
	vAssert(!s.Scan())
	vAssert(s.Err() == osm.ErrScannerClosed)
	consumed := r.pos
	time.Sleep(2 * time.Millisecond)
	vAssert(r.pos == consumed && consumed < len(data)) // nothing keeps reading in the background
}
