//go:build verif

package osmpbf

import (
	"bytes"
	"context"
	"encoding/binary"
	"io"
	"time"

	"github.com/paulmach/osm"
	pb "github.com/paulmach/osm/osmpbf/internal/osmpbf"
	"google.golang.org/protobuf/proto"
)

func pbfFlatten(objs [][]osm.Object, upto int) []osm.Object {
	var out []osm.Object
	for i := 0; i < upto && i < len(objs); i++ {
		out = append(out, objs[i]...)
	}
	return out
}

// C01: "Scanning any valid OSM PBF stream yields exactly the nodes, ways and
// relations it encodes, in file order, with every field ... equal to the value
// the PBF format defines."
//
//@ func oracleC01Decode
//@   props C01 C02
//@   oracle
//@   covers osm/osmpbf.
func oracleC01Decode(f PbfFile, procs int) {
	pbfNormalize(&f)
	data, _, objs := pbfBuild(f)
	want := pbfFlatten(objs, len(objs))
	res := pbfScan(data, pbfAbs(procs)%5+1, nil, 0)
	vAssert(!res.Hung && res.Panic == nil)
	vAssert(res.Err == nil)
	vAssert(len(res.Objects) == len(want))
	for i := range want {
		if i < len(res.Objects) {
			vAssert(pbfSame(res.Objects[i], want[i]))
		}
	}
}

// C06: "If a PBF stream is cut at any byte offset, the scan yields exactly the
// objects of the complete blocks before the cut and then stops, reporting
// success only when the cut falls on a block boundary and an error otherwise."
//
//@ func oracleC06Truncation
//@   props C06
//@   oracle
//@   covers osm/osmpbf.
func oracleC06Truncation(f PbfFile, cutSel int, procs int) {
	pbfNormalize(&f)
	data, starts, objs := pbfBuild(f)
	cut := pbfAbs(cutSel) % (len(data) + 1)
	// bias towards the interesting offsets right after a length prefix / header
	if cutSel%3 == 0 && len(starts) > 1 {
		k := pbfAbs(cutSel/3) % (len(starts) - 1)
		cut = starts[k] + 4
		if cutSel%2 == 0 {
			hs := int(data[starts[k]+3]) // header sizes are < 256 here
			cut = starts[k] + 4 + hs
		}
	}
	complete := 0 // number of complete data blocks before the cut
	boundary := false
	for i, s := range starts {
		if s <= cut && i >= 2 {
			complete = i - 1
		}
		if s == cut {
			boundary = true
		}
	}
	res := pbfScan(data[:cut], pbfAbs(procs)%3+1, nil, 0)
	vAssert(!res.Hung)
	vAssert(res.Panic == nil)
	want := pbfFlatten(objs, complete)
	vAssert(len(res.Objects) == len(want))
	for i := range want {
		if i < len(res.Objects) {
			vAssert(pbfSame(res.Objects[i], want[i]))
		}
	}
	vAssert((res.Err == nil) == boundary)
}

// C06 (damage): a negative or oversized block size, out-of-range string and
// column references and an unsupported (plain node) group end the scan with an
// error after the intact blocks, never a crash.
//
//@ func oracleC06Damage
//@   props C06
//@   oracle
//@   covers osm/osmpbf.
func oracleC06Damage(f PbfFile, kind int) {
	pbfNormalize(&f)
	vAssume(len(f.Blocks) > 0)
	if pbfAbs(kind)%7 >= 3 {
		// damage inside the last data block: string references outside the string table,
		// or parallel columns of different length
		last := &f.Blocks[len(f.Blocks)-1]
		vAssume(len(last.Ways)+len(last.Rels)+len(last.Nodes) > 0)
		if pbfAbs(kind)%7 == 3 {
			// effective only if the block references a string at all
			refs := last.DenseInfo && len(last.Nodes) > 0
			for _, n := range last.Nodes {
				refs = refs || len(n.Tags) > 0
			}
			for _, w := range last.Ways {
				refs = refs || len(w.Tags) > 0 || w.HasInfo
			}
			for _, r := range last.Rels {
				refs = refs || len(r.Tags) > 0 || r.HasInfo || len(r.Members) > 0
			}
			vAssume(refs)
			last.ShortStrings = true
		} else if pbfAbs(kind)%7 == 5 {
			// a plain node group in front of everything else in the block
			last.PlainNodes = true
		} else if pbfAbs(kind)%7 == 6 {
			// wrong uncompressed size: raw_size declares only a (valid) prefix of the inflated block
			vAssume(pbfPrefixLen(*last) > 0)
			last.ShortRawSize = true
		} else {
			// effective only if some way has refs (lat column longer than refs) or some relation has
			// a member (a relation without a types column is read as one without members)
			eff := false
			for _, w := range last.Ways {
				eff = eff || len(w.Refs) > 0
			}
			for _, r := range last.Rels {
				eff = eff || len(r.Members) > 0
			}
			vAssume(eff)
			last.ExtraColumn = true
		}
		data, _, objs := pbfBuild(f)
		res := pbfScan(data, 1, nil, 0)
		vAssert(!res.Hung)
		vAssert(res.Panic == nil)
		vAssert(res.Err != nil)
		want := pbfFlatten(objs, len(objs)-1)
		vAssert(len(res.Objects) == len(want))
		return
	}
	data, starts, _ := pbfBuild(f)
	if pbfAbs(kind)%7 == 2 {
		// oversized header length prefix (between the 64 KiB header limit and the 32 MiB blob limit)
		k := pbfAbs(kind/7) % (len(starts) - 1)
		mut := append([]byte{}, data...)
		binary.BigEndian.PutUint32(mut[starts[k]:], uint32(65537+pbfAbs(kind)%1000))
		res := pbfScan(mut, 1, nil, 0)
		vAssert(!res.Hung)
		vAssert(res.Panic == nil)
		vAssert(res.Err != nil)
		return
	}
	k := len(starts) - 2 // last data block
	hs := int(data[starts[k]+3])
	hdr := data[starts[k]+4 : starts[k]+4+hs]
	// the datasize varint is the last field of our blob headers: find its key (0x18)
	pos := -1
	for i := len(hdr) - 2; i >= 0; i-- {
		if hdr[i] == 0x18 {
			pos = i
			break
		}
	}
	vAssume(pos >= 0)
	mut := append([]byte{}, data[:starts[k]+4+pos+1]...)
	switch pbfAbs(kind) % 5 {
	case 0: // datasize = -1 (ten-byte varint)
		mut = append(mut, 0xff, 0xff, 0xff, 0xff, 0xff, 0xff, 0xff, 0xff, 0xff, 0x01)
	default: // datasize = 64 MiB
		mut = append(mut, 0x80, 0x80, 0x80, 0x20)
	}
	newHs := pos + 1 + len(mut) - (starts[k] + 4 + pos + 1)
	mut[starts[k]+3] = byte(newHs)
	mut = append(mut, data[starts[k]+4+hs:]...)
	res := pbfScan(mut, 1, nil, 0)
	vAssert(!res.Hung)
	vAssert(res.Panic == nil)
	vAssert(res.Err != nil)
}

type pbfCountingReader struct {
	data []byte
	pos  int
}

func (r *pbfCountingReader) Read(p []byte) (int, error) {
	if r.pos >= len(r.data) {
		return 0, io.EOF
	}
	n := copy(p, r.data[r.pos:])
	r.pos += n
	return n, nil
}

// C07: "A PBF ... scan can be stopped at any moment by Close ...: the call
// returns without consuming the rest of the input, every later Scan returns
// false, and Err reports ... the scanner-closed error after Close."
//
//@ func oracleC07Close
//@   props C07
//@   oracle
//@   covers osm/osmpbf.
func oracleC07Close(b PbfBlock, k int, procs int) {
	f := PbfFile{}
	if len(b.Nodes) == 0 {
		b.Nodes = []PbfNode{{ID: 1}}
	}
	b.Ways, b.Rels = nil, nil
	b.ShortStrings, b.ExtraColumn, b.PlainNodes, b.ShortRawSize = false, false, false, false // an intact file: no decoding error gets recorded
	b.CutStrings = 0
	for i := 0; i < 80; i++ {
		f.Blocks = append(f.Blocks, b)
	}
	data, _, _ := pbfBuild(f)
	r := &pbfCountingReader{data: data}
	s := New(context.Background(), r, pbfAbs(procs)%3+1)
	stop := pbfAbs(k) % 3
	n := 0
	for n < stop && s.Scan() {
		n++
	}
	done := make(chan struct{})
	go func() { s.Close(); close(done) }()
	select {
	case <-done:
	case <-time.After(5 * time.Second):
		vAssert(false) // Close hangs
		return
	}
	vAssert(r.pos < len(data)) // the rest of the input was not consumed
	vAssert(!s.Scan())
	vAssert(s.Err() == osm.ErrScannerClosed)
	consumed := r.pos
	time.Sleep(2 * time.Millisecond)
	vAssert(r.pos == consumed && consumed < len(data)) // nothing keeps reading in the background
}

// C09: "the reported fully-scanned byte count is the offset ... of the block
// containing the most recently returned object ... Starting a new scanner on
// the same data at that offset ... yields exactly the remaining objects
// beginning with the first object of that block."
//
//@ func oracleC09Resume
//@   props C09 C02
//@   oracle
//@   covers osm/osmpbf.
func oracleC09Resume(f PbfFile, stop int, procs int, skipNodes bool) {
	pbfNormalize(&f)
	// several small blocks so that resuming in the middle is exercised
	if len(f.Blocks) == 1 {
		f.Blocks = append(f.Blocks, f.Blocks[0], f.Blocks[0])
	}
	pbfNormalize(&f)
	data, starts, objs := pbfBuild(f)
	keep := func(o osm.Object) bool {
		_, isNode := o.(*osm.Node)
		return !(skipNodes && isNode)
	}
	var all []osm.Object
	blockOf := []int{}
	for bi, bo := range objs {
		for _, o := range bo {
			if keep(o) {
				all = append(all, o)
				blockOf = append(blockOf, bi)
			}
		}
	}
	vAssume(len(all) > 0)
	k := pbfAbs(stop)%len(all) + 1 // stop after k objects
	s := New(context.Background(), bytes.NewReader(data), 1)
	s.SkipNodes = skipNodes
	n := 0
	for n < k && s.Scan() {
		n++
	}
	vAssert(n == k)
	off := s.FullyScannedBytes()
	if stop%2 == 0 {
		// read on to the end: the offsets name the last block taken from the file (a trailing block whose
		// objects were all skipped counts as taken); the end-of-stream marker is not a block
		for s.Scan() {
			n++
		}
		vAssert(s.Err() == nil)
		vAssert(s.FullyScannedBytes() == int64(starts[len(objs)]))
		s.Scan()
		vAssert(s.FullyScannedBytes() == int64(starts[len(objs)]))
	}
	s.Close()
	b := blockOf[k-1]
	vAssert(off == int64(starts[b+1])) // offset of the block containing the k-th object
	// resume there: a data block comes first instead of a header
	var want []osm.Object
	for i := range all {
		if blockOf[i] >= b {
			want = append(want, all[i])
		}
	}
	res := pbfScan(data[off:], pbfAbs(procs)%4+1, func(s2 *Scanner) { s2.SkipNodes = skipNodes }, 0)
	vAssert(!res.Hung && res.Panic == nil && res.Err == nil)
	vAssert(len(res.Objects) == len(want))
	for i := range want {
		if i < len(res.Objects) {
			vAssert(pbfSame(res.Objects[i], want[i]))
		}
	}
	// the offsets a resumed scan reports are relative to where it started: stopping it again and resuming
	// at base + its offset neither loses nor repeats an element (the first block of a resumed scan is at 0)
	if len(want) > 0 {
		k2 := pbfAbs(stop/3)%len(want) + 1
		s2 := New(context.Background(), bytes.NewReader(data[off:]), pbfAbs(procs)%4+1)
		s2.SkipNodes = skipNodes
		n2 := 0
		for n2 < k2 && s2.Scan() {
			n2++
		}
		vAssert(n2 == k2)
		off2 := s2.FullyScannedBytes()
		s2.Close()
		// block of the k2-th object of the resumed scan
		idx := 0
		for i := range all {
			if blockOf[i] >= b {
				idx++
				if idx == k2 {
					b2 := blockOf[i]
					vAssert(off+off2 == int64(starts[b2+1]))
					var want2 []osm.Object
					for j := range all {
						if blockOf[j] >= b2 {
							want2 = append(want2, all[j])
						}
					}
					if off+off2 <= int64(len(data)) {
						res2 := pbfScan(data[off+off2:], 1, func(s3 *Scanner) { s3.SkipNodes = skipNodes }, 0)
						vAssert(!res2.Hung && res2.Panic == nil && res2.Err == nil)
						vAssert(len(res2.Objects) == len(want2))
					}
					break
				}
			}
		}
	}
}

// C08: "Skipping element types or installing filter functions yields exactly
// the subsequence of the unfiltered scan ... unchanged and in the same order.
// Every object the scanner has returned is never modified afterwards."
//
//@ func oracleC08Filters
//@   props C08
//@   oracle
//@   covers osm/osmpbf.
func oracleC08Filters(f PbfFile, skipN, skipW, skipR bool, mode int, procs int) {
	pbfNormalize(&f)
	data, _, objs := pbfBuild(f)
	all := pbfFlatten(objs, len(objs))
	count := 0
	pred := func(id int64) bool {
		switch pbfAbs(mode) % 4 {
		case 0:
			return true
		case 1:
			return false
		case 2:
			return id%2 == 0
		}
		count++
		return count%2 == 0
	}
	// alternating predicates are order dependent: use one decoder for them
	p := pbfAbs(procs)%3 + 1
	if pbfAbs(mode)%4 == 3 {
		p = 1
	}
	var want []osm.Object
	count = 0
	for _, o := range all {
		switch x := o.(type) {
		case *osm.Node:
			if !skipN && pred(int64(x.ID)) {
				want = append(want, o)
			}
		case *osm.Way:
			if !skipW && pred(int64(x.ID)) {
				want = append(want, o)
			}
		case *osm.Relation:
			if !skipR && pred(int64(x.ID)) {
				want = append(want, o)
			}
		}
	}
	count = 0
	res := pbfScan(data, p, func(s *Scanner) {
		s.SkipNodes, s.SkipWays, s.SkipRelations = skipN, skipW, skipR
		s.FilterNode = func(n *osm.Node) bool { return pred(int64(n.ID)) }
		s.FilterWay = func(w *osm.Way) bool { return pred(int64(w.ID)) }
		s.FilterRelation = func(r *osm.Relation) bool { return pred(int64(r.ID)) }
	}, 0)
	vAssert(!res.Hung && res.Panic == nil && res.Err == nil)
	vAssert(len(res.Objects) == len(want))
	// compared only after the whole scan: returned objects must not have been modified since
	for i := range want {
		if i < len(res.Objects) {
			vAssert(pbfSame(res.Objects[i], want[i]))
		}
	}
}

// C06, string references at the boundary: the string table of the last data
// block is cut so that the largest index the block refers to is exactly the
// table length (or, for other cut values, somewhere above it). Such a block is
// damaged: the scan must end with an error after the objects of the intact
// blocks, and must not crash.
//
//@ func oracleC06StringBoundary
//@   props C06
//@   oracle
//@   covers osm/osmpbf.
func oracleC06StringBoundary(f PbfFile, below int) {
	pbfNormalize(&f)
	vAssume(len(f.Blocks) > 0)
	last := &f.Blocks[len(f.Blocks)-1]
	m := pbfMaxRef(*last)
	vAssume(m >= 1)
	cut := m - pbfAbs(below)%3 // table length = largest reference, or one or two less
	if pbfAbs(below)%5 == 4 {
		cut = -1 // no string table entries at all: nothing of an earlier block's table may be used instead
	}
	vAssume(cut >= 1 || cut == -1)
	last.CutStrings = cut
	data, _, objs := pbfBuild(f)
	res := pbfScan(data, 1, nil, 0)
	vAssert(!res.Hung)
	vAssert(res.Panic == nil)
	vAssert(res.Err != nil)
	want := pbfFlatten(objs, len(objs)-1)
	vAssert(len(res.Objects) == len(want))
}

// C01, header: "Header() reports the header block's bounding box,
// required/optional features, writing program, source and replication fields
// unchanged", each optional field present or absent.
//
//@ func oracleC01Header
//@   props C01
//@   oracle
//@   covers decodeOSMHeader
func oracleC01Header(present int, l, r, t, b int, ts int, seq int, zlibBlob bool) {
	has := func(i uint) bool { return pbfAbs(present)>>i&1 == 1 }
	hb := &pb.HeaderBlock{RequiredFeatures: []string{"OsmSchema-V0.6", "DenseNodes"}}
	want := &Header{RequiredFeatures: []string{"OsmSchema-V0.6", "DenseNodes"}}
	if has(0) {
		hb.OptionalFeatures = []string{"Sort.Type_then_ID", "x"}
		want.OptionalFeatures = []string{"Sort.Type_then_ID", "x"}
	}
	if has(1) {
		hb.Writingprogram = proto.String("prog")
		want.WritingProgram = "prog"
	}
	if has(2) {
		hb.Source = proto.String("src")
		want.Source = "src"
	}
	if has(3) {
		hb.OsmosisReplicationBaseUrl = proto.String("http://u/")
		want.ReplicationBaseURL = "http://u/"
	}
	if has(4) {
		hb.OsmosisReplicationSequenceNumber = proto.Int64(int64(pbfAbs(seq)))
		want.ReplicationSeqNum = uint64(pbfAbs(seq))
	}
	if has(5) {
		hb.OsmosisReplicationTimestamp = proto.Int64(int64(pbfAbs(ts)))
		want.ReplicationTimestamp = time.Unix(int64(pbfAbs(ts)), 0).UTC()
	}
	if has(6) {
		hb.Bbox = &pb.HeaderBBox{Left: proto.Int64(int64(l)), Right: proto.Int64(int64(r)), Top: proto.Int64(int64(t)), Bottom: proto.Int64(int64(b))}
		want.Bounds = &osm.Bounds{MinLon: 1e-9 * float64(l), MaxLon: 1e-9 * float64(r), MinLat: 1e-9 * float64(b), MaxLat: 1e-9 * float64(t)}
	}
	hraw, err := proto.Marshal(hb)
	vAssume(err == nil)
	data := pbfFileBlock("OSMHeader", hraw, zlibBlob)
	s := New(context.Background(), bytes.NewReader(data), 1)
	defer s.Close()
	got, err := s.Header()
	vAssert(err == nil && got != nil)
	if got == nil {
		return
	}
	eq := func(a, b []string) bool {
		if len(a) != len(b) {
			return false
		}
		for i := range a {
			if a[i] != b[i] {
				return false
			}
		}
		return true
	}
	vAssert(eq(got.RequiredFeatures, want.RequiredFeatures) && eq(got.OptionalFeatures, want.OptionalFeatures))
	vAssert(got.WritingProgram == want.WritingProgram && got.Source == want.Source && got.ReplicationBaseURL == want.ReplicationBaseURL)
	vAssert(got.ReplicationSeqNum == want.ReplicationSeqNum && got.ReplicationTimestamp.Equal(want.ReplicationTimestamp) && got.ReplicationTimestamp.IsZero() == !has(5))
	vAssert((got.Bounds == nil) == (want.Bounds == nil))
	if got.Bounds != nil && want.Bounds != nil {
		vAssert(*got.Bounds == *want.Bounds)
	}
}
