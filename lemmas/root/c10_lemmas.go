//go:build verif

package osm

// Marker functions understood by govc.
func vAssert(b bool) {}
func vAssume(b bool) {}
func vCover(b bool)  {}

// Round trip kind/ref/version for node element ids (full domain).

//@ func lemmaC10NodeRoundTrip
//@   mode bv
//@   props C10
//@   nopanic
//@   requires 0 <= r && r < (1 << 40) && 0 <= v && v < (1 << 16)
func lemmaC10NodeRoundTrip(r int64, v int) {
	e := NodeID(r).ElementID(v)
	vAssert(e.Type() == TypeNode)
	vAssert(e.Ref() == r)
	vAssert(e.Version() == v)
	vAssert(e.NodeID() == NodeID(r))
	o := NodeID(r).ObjectID(v)
	vAssert(o.Type() == TypeNode)
	vAssert(o.Ref() == r)
	vAssert(o.Version() == v)
	f := NodeID(r).FeatureID()
	vAssert(f.Type() == TypeNode)
	vAssert(f.Ref() == r)
	vAssert(f.NodeID() == NodeID(r))
	vAssert(e.FeatureID() == f)
	vAssert(f.ElementID(v) == e)
	vAssert(e.ObjectID() == o)
}
