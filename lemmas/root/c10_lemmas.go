//go:build verif

package osm

// Round trip kind/ref/version for node element ids (full domain).

//@ func lemmaC10NodeRoundTrip
//@   mode bv
//@   props C10
//@   nopanic
//@   requires 0 <= r && r < (1 << 40) && 0 <= v && v < (1 << 16)
func lemmaC10NodeRoundTrip(r int64, v int) {
	e := NodeID(r).ElementID(v)
	vAssert(e.Type() == TypeNode)
	vAssert(e.Ref() == r)
	vAssert(e.Version() == v)
	vAssert(e.NodeID() == NodeID(r))
	o := NodeID(r).ObjectID(v)
	vAssert(o.Type() == TypeNode)
	vAssert(o.Ref() == r)
	vAssert(o.Version() == v)
	f := NodeID(r).FeatureID()
	vAssert(f.Type() == TypeNode)
	vAssert(f.Ref() == r)
	vAssert(f.NodeID() == NodeID(r))
	vAssert(e.FeatureID() == f)
	vAssert(f.ElementID(v) == e)
	vAssert(e.ObjectID() == o)
}

//@ func lemmaC10WayRoundTrip
//@   mode bv
//@   props C10
//@   nopanic
//@   requires 0 <= r && r < (1 << 40) && 0 <= v && v < (1 << 16)
func lemmaC10WayRoundTrip(r int64, v int) {
	e := WayID(r).ElementID(v)
	vAssert(e.Type() == TypeWay)
	vAssert(e.Ref() == r)
	vAssert(e.Version() == v)
	vAssert(e.WayID() == WayID(r))
	o := WayID(r).ObjectID(v)
	vAssert(o.Type() == TypeWay)
	vAssert(o.Ref() == r)
	vAssert(o.Version() == v)
	f := WayID(r).FeatureID()
	vAssert(f.Type() == TypeWay)
	vAssert(f.Ref() == r)
	vAssert(f.WayID() == WayID(r))
	vAssert(e.FeatureID() == f)
	vAssert(f.ElementID(v) == e)
	vAssert(e.ObjectID() == o)
}

//@ func lemmaC10RelationRoundTrip
//@   mode bv
//@   props C10
//@   nopanic
//@   requires 0 <= r && r < (1 << 40) && 0 <= v && v < (1 << 16)
func lemmaC10RelationRoundTrip(r int64, v int) {
	e := RelationID(r).ElementID(v)
	vAssert(e.Type() == TypeRelation)
	vAssert(e.Ref() == r)
	vAssert(e.Version() == v)
	vAssert(e.RelationID() == RelationID(r))
	o := RelationID(r).ObjectID(v)
	vAssert(o.Type() == TypeRelation)
	vAssert(o.Ref() == r)
	vAssert(o.Version() == v)
	f := RelationID(r).FeatureID()
	vAssert(f.Type() == TypeRelation)
	vAssert(f.Ref() == r)
	vAssert(f.RelationID() == RelationID(r))
	vAssert(e.FeatureID() == f)
	vAssert(f.ElementID(v) == e)
	vAssert(e.ObjectID() == o)
}

//@ func lemmaC10OtherKindsRoundTrip
//@   mode bv
//@   props C10
//@   nopanic
//@   requires 0 <= r && r < (1 << 40)
func lemmaC10OtherKindsRoundTrip(r int64) {
	c := ChangesetID(r).ObjectID()
	vAssert(c.Type() == TypeChangeset)
	vAssert(c.Ref() == r)
	vAssert(c.Version() == 0)
	n := NoteID(r).ObjectID()
	vAssert(n.Type() == TypeNote)
	vAssert(n.Ref() == r)
	vAssert(n.Version() == 0)
	u := UserID(r).ObjectID()
	vAssert(u.Type() == TypeUser)
	vAssert(u.Ref() == r)
	vAssert(u.Version() == 0)
	var b *Bounds
	bo := b.ObjectID()
	vAssert(bo.Type() == TypeBounds)
}

// Injectivity over all seven kinds, via the one constructor that covers them.

//@ func lemmaC10Injective
//@   mode bv
//@   props C10
//@   nopanic
//@   requires 0 <= r1 && r1 < (1 << 40) && 0 <= v1 && v1 < (1 << 16)
//@   requires 0 <= r2 && r2 < (1 << 40) && 0 <= v2 && v2 < (1 << 16)
func lemmaC10Injective(t1, t2 Type, r1, r2 int64, v1, v2 int) {
	o1, e1 := t1.objectID(r1, v1)
	o2, e2 := t2.objectID(r2, v2)
	if e1 != nil || e2 != nil {
		return
	}
	// decoding recovers the kind for every kind
	vAssert(o1.Type() == t1)
	vAssert(o2.Type() == t2)
	if o1 == o2 {
		vAssert(t1 == t2)
		if t1 != TypeBounds {
			vAssert(r1 == r2)
		}
		if t1 == TypeNode || t1 == TypeWay || t1 == TypeRelation {
			vAssert(v1 == v2)
		}
	}
}

// Integer order of ids equals (kind, ref, version) lexicographic order with
// bounds < node < way < relation < changeset < note < user.

//@ func lemmaC10OrderIso
//@   mode bv
//@   props C10
//@   nopanic
//@   requires 0 <= r1 && r1 < (1 << 40) && 0 <= v1 && v1 < (1 << 16)
//@   requires 0 <= r2 && r2 < (1 << 40) && 0 <= v2 && v2 < (1 << 16)
func lemmaC10OrderIso(t1, t2 Type, r1, r2 int64, v1, v2 int) {
	o1, e1 := t1.objectID(r1, v1)
	o2, e2 := t2.objectID(r2, v2)
	if e1 != nil || e2 != nil {
		return
	}
	k1, k2 := 0, 0
	if t1 == TypeNode {
		k1 = 1
	} else if t1 == TypeWay {
		k1 = 2
	} else if t1 == TypeRelation {
		k1 = 3
	} else if t1 == TypeChangeset {
		k1 = 4
	} else if t1 == TypeNote {
		k1 = 5
	} else if t1 == TypeUser {
		k1 = 6
	}
	if t2 == TypeNode {
		k2 = 1
	} else if t2 == TypeWay {
		k2 = 2
	} else if t2 == TypeRelation {
		k2 = 3
	} else if t2 == TypeChangeset {
		k2 = 4
	} else if t2 == TypeNote {
		k2 = 5
	} else if t2 == TypeUser {
		k2 = 6
	}
	if k1 == 0 || k2 == 0 {
		// bounds carry neither ref nor version
		if k1 == 0 && k2 != 0 {
			vAssert(o1 < o2)
		}
		return
	}
	// kinds without versions ignore v
	if k1 > 3 {
		v1 = 0
	}
	if k2 > 3 {
		v2 = 0
	}
	lex := k1 < k2 || (k1 == k2 && (r1 < r2 || (r1 == r2 && v1 < v2)))
	vAssert((o1 < o2) == lex)
}

// Element ids: node < way < relation, then ref, then version; and the
// feature id order is the same order with the version dropped.

//@ func lemmaC10ElementOrder
//@   mode bv
//@   props C10
//@   nopanic
//@   requires 0 <= r1 && r1 < (1 << 40) && 0 <= v1 && v1 < (1 << 16)
//@   requires 0 <= r2 && r2 < (1 << 40) && 0 <= v2 && v2 < (1 << 16)
func lemmaC10ElementOrder(r1, r2 int64, v1, v2 int) {
	n1, n2 := NodeID(r1).ElementID(v1), NodeID(r2).ElementID(v2)
	w1, w2 := WayID(r1).ElementID(v1), WayID(r2).ElementID(v2)
	l1, l2 := RelationID(r1).ElementID(v1), RelationID(r2).ElementID(v2)
	lex := r1 < r2 || (r1 == r2 && v1 < v2)
	vAssert((n1 < n2) == lex)
	vAssert((w1 < w2) == lex)
	vAssert((l1 < l2) == lex)
	vAssert(n1 < w2 && w1 < l2 && n1 < l2)
	vAssert((n1.FeatureID() < n2.FeatureID()) == (r1 < r2))
	vAssert(n1.FeatureID() < w2.FeatureID() && w1.FeatureID() < l2.FeatureID())
}

// The sort comparison functions are integer < on the packed ids.

//@ func lemmaC10LessElementIDs
//@   mode bv
//@   props C10
//@   nopanic
//@   requires 0 <= i && i < len(ids) && 0 <= j && j < len(ids)
func lemmaC10LessElementIDs(ids ElementIDs, i, j int) {
	vAssert(elementIDsSort(ids).Less(i, j) == (ids[i] < ids[j]))
}

//@ func lemmaC10LessFeatureIDs
//@   mode bv
//@   props C10
//@   nopanic
//@   requires 0 <= i && i < len(ids) && 0 <= j && j < len(ids)
func lemmaC10LessFeatureIDs(ids FeatureIDs, i, j int) {
	vAssert(featureIDsSort(ids).Less(i, j) == (ids[i] < ids[j]))
}

// The textual form parses back to the same identifier (over contracts of
// String/Parse* and the trusted text model of strconv/fmt/strings).

//@ func lemmaC10TextRoundTripFeatureNode
//@   mode bv
//@   props C10
//@   nopanic
//@   requires 0 <= r && r < (1 << 40)
func lemmaC10TextRoundTripFeatureNode(r int64) {
	n := NodeID(r).FeatureID()
	pn, en := ParseFeatureID(n.String())
	vAssert(en == nil && pn == n)
}

//@ func lemmaC10TextRoundTripFeatureWay
//@   mode bv
//@   props C10
//@   nopanic
//@   requires 0 <= r && r < (1 << 40)
func lemmaC10TextRoundTripFeatureWay(r int64) {
	w := WayID(r).FeatureID()
	pw, ew := ParseFeatureID(w.String())
	vAssert(ew == nil && pw == w)
}

//@ func lemmaC10TextRoundTripFeatureRelation
//@   mode bv
//@   props C10
//@   nopanic
//@   requires 0 <= r && r < (1 << 40)
func lemmaC10TextRoundTripFeatureRelation(r int64) {
	l := RelationID(r).FeatureID()
	pl, el := ParseFeatureID(l.String())
	vAssert(el == nil && pl == l)
}

//@ func lemmaC10TextRoundTripElementNode
//@   mode bv
//@   props C10
//@   nopanic
//@   requires 0 <= r && r < (1 << 40) && 0 <= v && v < (1 << 16)
func lemmaC10TextRoundTripElementNode(r int64, v int) {
	n := NodeID(r).ElementID(v)
	pn, en := ParseElementID(n.String())
	vAssert(en == nil && pn == n)
}

//@ func lemmaC10TextRoundTripElementWay
//@   mode bv
//@   props C10
//@   nopanic
//@   requires 0 <= r && r < (1 << 40) && 0 <= v && v < (1 << 16)
func lemmaC10TextRoundTripElementWay(r int64, v int) {
	w := WayID(r).ElementID(v)
	pw, ew := ParseElementID(w.String())
	vAssert(ew == nil && pw == w)
}

//@ func lemmaC10TextRoundTripElementRelation
//@   mode bv
//@   props C10
//@   nopanic
//@   requires 0 <= r && r < (1 << 40) && 0 <= v && v < (1 << 16)
func lemmaC10TextRoundTripElementRelation(r int64, v int) {
	l := RelationID(r).ElementID(v)
	pl, el := ParseElementID(l.String())
	vAssert(el == nil && pl == l)
}

//@ func lemmaC10TextRoundTripObjectNode
//@   mode bv
//@   props C10
//@   nopanic
//@   requires 0 <= r && r < (1 << 40) && 0 <= v && v < (1 << 16)
func lemmaC10TextRoundTripObjectNode(r int64, v int) {
	n := NodeID(r).ObjectID(v)
	pn, en := ParseObjectID(n.String())
	vAssert(en == nil && pn == n)
}

//@ func lemmaC10TextRoundTripObjectChangeset
//@   mode bv
//@   props C10
//@   nopanic
//@   requires 0 <= r && r < (1 << 40)
func lemmaC10TextRoundTripObjectChangeset(r int64) {
	c := ChangesetID(r).ObjectID()
	pc, ec := ParseObjectID(c.String())
	vAssert(ec == nil && pc == c)
}

//@ func lemmaC10TextRoundTripObjectUser
//@   mode bv
//@   props C10
//@   nopanic
//@   requires 0 <= r && r < (1 << 40)
func lemmaC10TextRoundTripObjectUser(r int64) {
	u := UserID(r).ObjectID()
	pu, eu := ParseObjectID(u.String())
	vAssert(eu == nil && pu == u)
}

// Text without the kind/ref[:version] shape, or naming an unknown kind, is rejected.

//@ func lemmaC10ParseRejects
//@   mode bv
//@   props C10
//@   nopanic
func lemmaC10ParseRejects(ref string) {
	_, e1 := ParseFeatureID("node")
	vAssert(e1 != nil)
	_, e2 := ParseFeatureID("node/1/2")
	vAssert(e2 != nil)
	_, e3 := ParseFeatureID("tree/" + ref)
	vAssert(e3 != nil)
	_, e4 := ParseElementID("way/1:2:3")
	vAssert(e4 != nil)
	_, e5 := ParseElementID("changeset/" + ref)
	vAssert(e5 != nil)
	_, e6 := ParseObjectID("planet/" + ref)
	vAssert(e6 != nil)
}
