//go:build verif

package osm

import "fmt"

// Executable transcription of the C10 statement for counterexample search:
// round trips (packed and textual) at bit-field boundaries.
//
//@ func oracleC10RoundTrips
//@   props C10
//@   oracle
func oracleC10RoundTrips(ki, ri, vi int) {
	refs := []int64{0, 1, 65535, 65536, 1<<39 - 1, 1 << 39, 1<<40 - 1}
	vers := []int{0, 1, 255, 256, 32767, 32768, 65535}
	abs := func(x int) int {
		if x < 0 {
			return -x
		}
		return x
	}
	r, v := refs[abs(ri*3+ki)%len(refs)], vers[abs(vi*2+ri)%len(vers)]
	var e ElementID
	var f FeatureID
	var typ Type
	switch abs(ki) % 3 {
	case 0:
		e, f, typ = NodeID(r).ElementID(v), NodeID(r).FeatureID(), TypeNode
	case 1:
		e, f, typ = WayID(r).ElementID(v), WayID(r).FeatureID(), TypeWay
	default:
		e, f, typ = RelationID(r).ElementID(v), RelationID(r).FeatureID(), TypeRelation
	}
	vAssert(e.Type() == typ && e.Ref() == r && e.Version() == v)
	vAssert(f.Type() == typ && f.Ref() == r && e.FeatureID() == f)
	o := e.ObjectID()
	vAssert(o.Type() == typ && o.Ref() == r && o.Version() == v)
	pe, err := ParseElementID(e.String())
	vAssert(err == nil && pe == e)
	pf, err := ParseFeatureID(f.String())
	vAssert(err == nil && pf == f)
	po, err := ParseObjectID(o.String())
	vAssert(err == nil && po == o)
	for _, c := range []ObjectID{ChangesetID(r).ObjectID(), NoteID(r).ObjectID(), UserID(r).ObjectID()} {
		vAssert(c.Ref() == r && c.Version() == 0)
		pc, err := ParseObjectID(c.String())
		vAssert(err == nil && pc == c)
	}
	vAssert(ChangesetID(r).ObjectID().Type() == TypeChangeset && NoteID(r).ObjectID().Type() == TypeNote && UserID(r).ObjectID().Type() == TypeUser)
	// order: node < way < relation, then ref, then version
	r2, v2 := refs[abs(ri+1)%len(refs)], vers[abs(vi+3)%len(vers)]
	a, b := NodeID(r).ElementID(v), NodeID(r2).ElementID(v2)
	vAssert((a < b) == (r < r2 || (r == r2 && v < v2)))
	vAssert(NodeID(r).ElementID(v) < WayID(r2).ElementID(v2) && WayID(r).ElementID(v) < RelationID(r2).ElementID(v2))
	// malformed text is rejected
	_, err = ParseElementID(e.String() + ":1")
	vAssert(err != nil)
	_, err = ParseFeatureID("tree/1")
	vAssert(err != nil)
}

// C10, text forms are decimal: a reference written with leading zeros is the
// same decimal number, and text in another base (0x.., 0b.., 0o.., digit
// separators) is not an id.
//
//@ func oracleC10DecimalText
//@   props C10
//@   oracle
//@   covers ParseObjectID
//@   covers ParseElementID
//@   covers ParseFeatureID
func oracleC10DecimalText(refSel int64, verSel int, pad int, kind int) {
	ref := refSel % (1 << 39)
	if ref < 0 {
		ref = -ref
	}
	ver := verSel % 1000
	if ver < 0 {
		ver = -ver
	}
	if pad < 0 {
		pad = -pad
	}
	zeros := "000"[:pad%4]
	types := []string{"node", "way", "relation"}
	if kind < 0 {
		kind = -kind
	}
	t := types[kind%3]
	txt := fmt.Sprintf("%s/%s%d:%d", t, zeros, ref, ver)
	oid, err := ParseObjectID(txt)
	vAssert(err == nil && oid.Ref() == ref && oid.Version() == ver && string(oid.Type()) == t)
	eid, err := ParseElementID(txt)
	vAssert(err == nil && eid.Ref() == ref && eid.Version() == ver && string(eid.Type()) == t)
	fid, err := ParseFeatureID(fmt.Sprintf("%s/%s%d", t, zeros, ref))
	vAssert(err == nil && fid.Ref() == ref && string(fid.Type()) == t)
	for _, bad := range []string{fmt.Sprintf("%s/0x%x:%d", t, ref+10, ver), fmt.Sprintf("%s/0b101:%d", t, ver), fmt.Sprintf("%s/0o17:%d", t, ver), fmt.Sprintf("%s/1_000:%d", t, ver)} {
		_, e1 := ParseObjectID(bad)
		_, e2 := ParseElementID(bad)
		vAssert(e1 != nil && e2 != nil)
	}
}
