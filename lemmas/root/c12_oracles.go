//go:build verif

package osm

import "time"

// kept apart from c12_lemmas.go: the oracle only calls the public sort, so it still compiles (and
// can produce a failing input) when the comparison type the lemmas name is refactored away

// "versions of one child that share a timestamp are applied oldest to newest"
//
//@ func oracleC12SortedByIndexTimeVersion
//@   props C12
//@   oracle
//@   covers updatesSortIndex
//@   covers lemmaC12
//@   covers SortByIndex
//@   covers lemmas/c12
func oracleC12SortedByIndexTimeVersion(us Updates, seed int, n int) {
	// the generated list, extended to a length at which the library sort is no longer an insertion
	// sort: few indexes, few timestamps, many versions, so that ties on (index, time) are common
	x := uint64(seed)*6364136223846793005 + 1442695040888963407
	next := func(m int) int {
		x = x*6364136223846793005 + 1442695040888963407
		return int((x >> 33) % uint64(m))
	}
	if n < 0 {
		n = -(n + 1)
	}
	base := time.Date(2015, 1, 1, 0, 0, 0, 0, time.UTC)
	for k := 0; k < 13+n%40; k++ {
		us = append(us, Update{Index: next(3), Version: next(50), Timestamp: base.Add(time.Duration(next(3)) * time.Hour)})
	}
	us.SortByIndex()
	for k := 0; k+1 < len(us); k++ {
		a, b := us[k], us[k+1]
		ok := a.Index < b.Index || (a.Index == b.Index && (a.Timestamp.Before(b.Timestamp) ||
			(a.Timestamp.Equal(b.Timestamp) && a.Version <= b.Version)))
		vAssert(ok)
	}
}
