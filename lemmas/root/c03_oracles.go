//go:build verif

package osm

import (
	"encoding/xml"
	"fmt"
	"strings"
)

// Executable transcription of the augmented-diff part of C03 for
// counterexample search on the real code: an <action> element written by an
// independent writer (plain string building) with its attributes in any order
// and unknown attributes mixed in decodes to the action type and the elements
// written.
//
//@ func oracleC03ActionAttrs
//@   props C03
//@   oracle
//@   covers osm.Action
func oracleC03ActionAttrs(typeSel int, pos int, nExtra int, kind int, id int64) {
	abs := func(x int) int {
		if x < 0 {
			return -x
		}
		return x
	}
	types := []string{"create", "modify", "delete"}
	typ := types[abs(typeSel)%len(types)]
	n := abs(nExtra) % 4
	attrs := make([]string, 0, n+1)
	for i := 0; i < n; i++ {
		attrs = append(attrs, fmt.Sprintf(`x%d="v%d"`, i, i))
	}
	p := abs(pos) % (n + 1)
	attrs = append(attrs[:p], append([]string{`type="` + typ + `"`}, attrs[p:]...)...)
	if id < 0 {
		id = -(id + 1)
	}
	elems := []string{"node", "way", "relation"}
	el := elems[abs(kind)%3]
	doc := `<osm><action ` + strings.Join(attrs, "  ") + `><!-- c --><` + el + fmt.Sprintf(` id="%d"`, id) + ` unknown="1"/></action></osm>`

	var d Diff
	err := xml.Unmarshal([]byte(doc), &d)
	vAssert(err == nil)
	vAssert(len(d.Actions) == 1)
	a := d.Actions[0]
	vAssert(string(a.Type) == typ)
	vAssert(a.OSM != nil)
	switch el {
	case "node":
		vAssert(len(a.OSM.Nodes) == 1 && int64(a.OSM.Nodes[0].ID) == id)
	case "way":
		vAssert(len(a.OSM.Ways) == 1 && int64(a.OSM.Ways[0].ID) == id)
	case "relation":
		vAssert(len(a.OSM.Relations) == 1 && int64(a.OSM.Relations[0].ID) == id)
	}
}
