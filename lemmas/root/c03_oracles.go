//go:build verif

package osm

import (
	"encoding/xml"
	"fmt"
	"strings"
	"time"
)

// Executable transcription of the augmented-diff part of C03 for
// counterexample search on the real code: an <action> element written by an
// independent writer (plain string building) with its attributes in any order
// and unknown attributes mixed in decodes to the action type and the elements
// written.
//
//@ func oracleC03ActionAttrs
//@   props C03
//@   oracle
//@   covers osm.Action
func oracleC03ActionAttrs(typeSel int, pos int, nExtra int, kind int, id int64) {
	abs := func(x int) int {
		if x < 0 {
			return -x
		}
		return x
	}
	types := []string{"create", "modify", "delete"}
	typ := types[abs(typeSel)%len(types)]
	n := abs(nExtra) % 4
	attrs := make([]string, 0, n+1)
	for i := 0; i < n; i++ {
		attrs = append(attrs, fmt.Sprintf(`x%d="v%d"`, i, i))
	}
	p := abs(pos) % (n + 1)
	attrs = append(attrs[:p], append([]string{`type="` + typ + `"`}, attrs[p:]...)...)
	if id < 0 {
		id = -(id + 1)
	}
	elems := []string{"node", "way", "relation"}
	el := elems[abs(kind)%3]
	doc := `<osm><action ` + strings.Join(attrs, "  ") + `><!-- c --><` + el + fmt.Sprintf(` id="%d"`, id) + ` unknown="1"/></action></osm>`

	var d Diff
	err := xml.Unmarshal([]byte(doc), &d)
	vAssert(err == nil)
	vAssert(len(d.Actions) == 1)
	a := d.Actions[0]
	vAssert(string(a.Type) == typ)
	vAssert(a.OSM != nil)
	switch el {
	case "node":
		vAssert(len(a.OSM.Nodes) == 1 && int64(a.OSM.Nodes[0].ID) == id)
	case "way":
		vAssert(len(a.OSM.Ways) == 1 && int64(a.OSM.Ways[0].ID) == id)
	case "relation":
		vAssert(len(a.OSM.Relations) == 1 && int64(a.OSM.Relations[0].ID) == id)
	}
}

// C03, root attributes: an <osm> or <osmChange> root written by an independent
// writer with any subset of version, generator, copyright, attribution and
// license in any order decodes to exactly those values.
//
//@ func oracleC03RootAttrs
//@   props C03
//@   oracle
//@   covers osm.Change
//@   covers (schema)C03#root-attr
func oracleC03RootAttrs(present int, rot int, change bool) {
	abs := func(x int) int {
		if x < 0 {
			if x == -x {
				return 0
			}
			return -x
		}
		return x
	}
	names := []string{"version", "generator", "copyright", "attribution", "license"}
	vals := map[string]string{}
	var attrs []string
	r := abs(rot) % 5
	for i := 0; i < 5; i++ {
		n := names[(i+r)%5]
		if abs(present)>>uint((i+r)%5)&1 == 1 {
			vals[n] = "v-" + n
			attrs = append(attrs, n+`="v-`+n+`"`)
		}
	}
	if change {
		doc := `<osmChange ` + strings.Join(attrs, " ") + `><create><node id="1"/></create></osmChange>`
		var c Change
		vAssert(xml.Unmarshal([]byte(doc), &c) == nil)
		vAssert(c.Version == vals["version"] && c.Generator == vals["generator"] && c.Copyright == vals["copyright"] && c.Attribution == vals["attribution"] && c.License == vals["license"])
		vAssert(c.Create != nil && len(c.Create.Nodes) == 1)
		return
	}
	doc := `<osm ` + strings.Join(attrs, " ") + `><node id="1"/></osm>`
	var o OSM
	vAssert(xml.Unmarshal([]byte(doc), &o) == nil)
	vAssert(o.Version == vals["version"] && o.Generator == vals["generator"] && o.Copyright == vals["copyright"] && o.Attribution == vals["attribution"] && o.License == vals["license"])
	vAssert(len(o.Nodes) == 1)
}

// C03, elements: a document written by an independent writer (string building
// from a small model) with nodes, ways, relations, a changeset with discussion,
// a note and a user - attributes in rotating order, unknown attributes, entity
// escapes, self-closing and open/close forms - decodes to exactly the model.
//
//@ func oracleC03Elements
//@   props C03
//@   oracle
//@   covers (schema)C03#format
//@   covers osm.Date
func oracleC03Elements(seed int, rot int, selfClose bool, withUnknown bool) {
	abs := func(x int) int {
		if x < 0 {
			if x == -x {
				return 0
			}
			return -x
		}
		return x
	}
	s := abs(seed)
	r := abs(rot)
	attrs := func(kv ...string) string { // kv: name, value pairs; rotated; values escaped
		n := len(kv) / 2
		var parts []string
		for i := 0; i < n; i++ {
			j := (i + r) % n
			v := strings.NewReplacer("&", "&amp;", "<", "&lt;", `"`, "&quot;").Replace(kv[2*j+1])
			parts = append(parts, kv[2*j]+`="`+v+`"`)
		}
		if withUnknown {
			parts = append(parts, `zz_unknown="1"`)
		}
		return strings.Join(parts, " ")
	}
	id := int64(s%1000 + 1)
	user := `a&b <"c">`
	ts := "2012-01-02T03:04:05Z"
	tag := func(k, v string) string {
		if selfClose {
			return `<tag ` + attrs("k", k, "v", v) + `/>`
		}
		return `<tag ` + attrs("k", k, "v", v) + `></tag>`
	}
	meta := func(i int64) []string {
		return []string{"id", fmt.Sprint(i), "user", user, "uid", fmt.Sprint(i + 7), "visible", "true", "version", fmt.Sprint(i%5 + 1), "changeset", fmt.Sprint(i + 100), "timestamp", ts}
	}
	var b strings.Builder
	b.WriteString(`<?xml version="1.0" encoding="UTF-8"?><osm version="0.6"><!-- c -->` + "\n")
	b.WriteString(`<bounds ` + attrs("minlat", "1.5", "minlon", "2.5", "maxlat", "3.5", "maxlon", "4.5") + `/>`)
	b.WriteString(`<node ` + attrs(append(meta(id), "lat", "10.5", "lon", "-20.25")...) + `>` + tag("name", "x&y") + tag("k2", "") + `</node>`)
	b.WriteString(`<way ` + attrs(meta(id+1)...) + `><nd ` + attrs("ref", fmt.Sprint(id)) + `/><nd ` + attrs("ref", fmt.Sprint(id+5)) + `/>` + tag("highway", "path") + `<zz_unknown/></way>`)
	b.WriteString(`<relation ` + attrs(meta(id+2)...) + `><member ` + attrs("type", "way", "ref", fmt.Sprint(id+1), "role", "outer") + `/><member ` + attrs("type", "node", "ref", fmt.Sprint(id), "role", "") + `/>` + tag("type", "multipolygon") + `</relation>`)
	b.WriteString(`<changeset ` + attrs("id", fmt.Sprint(id+3), "user", user, "uid", "9", "created_at", ts, "closed_at", ts, "open", "false", "min_lat", "1", "min_lon", "2", "max_lat", "3", "max_lon", "4", "comments_count", "1") + `>` + tag("comment", "c") +
		`<discussion><comment ` + attrs("date", ts, "uid", "5", "user", user) + `><text>hello &amp; bye</text></comment></discussion></changeset>`)
	b.WriteString(`<note ` + attrs("lat", "5.5", "lon", "6.5") + `><id>` + fmt.Sprint(id+4) + `</id><url>u</url><comment_url>cu</comment_url><close_url>xu</close_url><date_created>2019-06-15 08:26:04 UTC</date_created><status>open</status>` +
		`<comments><comment><date>2019-06-15 08:26:04 UTC</date><uid>3</uid><user>n&amp;m</user><user_url>uu</user_url><action>opened</action><text>t</text><html>h</html></comment></comments></note>`)
	b.WriteString(`<user ` + attrs("id", fmt.Sprint(id+5), "display_name", user, "account_created", ts) + `><description>d</description><languages><lang>en</lang><lang>de</lang></languages></user>`)
	b.WriteString(`</osm>`)

	var o OSM
	err := xml.Unmarshal([]byte(b.String()), &o)
	vAssert(err == nil)
	if err != nil {
		return
	}
	vAssert(o.Bounds != nil && o.Bounds.MinLat == 1.5 && o.Bounds.MinLon == 2.5 && o.Bounds.MaxLat == 3.5 && o.Bounds.MaxLon == 4.5)
	vAssert(len(o.Nodes) == 1 && len(o.Ways) == 1 && len(o.Relations) == 1 && len(o.Changesets) == 1 && len(o.Notes) == 1 && len(o.Users) == 1)
	if len(o.Nodes) != 1 || len(o.Ways) != 1 || len(o.Relations) != 1 || len(o.Changesets) != 1 || len(o.Notes) != 1 || len(o.Users) != 1 {
		return
	}
	at := time.Date(2012, 1, 2, 3, 4, 5, 0, time.UTC)
	n := o.Nodes[0]
	vAssert(int64(n.ID) == id && n.Lat == 10.5 && n.Lon == -20.25 && n.User == user && int64(n.UserID) == id+7 && n.Visible && n.Version == int(id%5+1) && int64(n.ChangesetID) == id+100 && n.Timestamp.Equal(at))
	vAssert(len(n.Tags) == 2 && n.Tags[0].Key == "name" && n.Tags[0].Value == "x&y" && n.Tags[1].Key == "k2" && n.Tags[1].Value == "")
	w := o.Ways[0]
	vAssert(int64(w.ID) == id+1 && w.User == user && int64(w.UserID) == id+8 && w.Visible && int64(w.ChangesetID) == id+101 && w.Timestamp.Equal(at))
	vAssert(len(w.Nodes) == 2 && int64(w.Nodes[0].ID) == id && int64(w.Nodes[1].ID) == id+5 && len(w.Tags) == 1 && w.Tags[0].Key == "highway" && w.Tags[0].Value == "path")
	rl := o.Relations[0]
	vAssert(int64(rl.ID) == id+2 && rl.User == user && rl.Visible && rl.Timestamp.Equal(at))
	vAssert(len(rl.Members) == 2 && rl.Members[0].Type == TypeWay && rl.Members[0].Ref == id+1 && rl.Members[0].Role == "outer" && rl.Members[1].Type == TypeNode && rl.Members[1].Ref == id && rl.Members[1].Role == "")
	vAssert(len(rl.Tags) == 1 && rl.Tags[0].Key == "type" && rl.Tags[0].Value == "multipolygon")
	cs := o.Changesets[0]
	vAssert(int64(cs.ID) == id+3 && cs.User == user && cs.UserID == 9 && cs.CreatedAt.Equal(at) && cs.ClosedAt.Equal(at) && !cs.Open && cs.MinLat == 1 && cs.MinLon == 2 && cs.MaxLat == 3 && cs.MaxLon == 4 && cs.CommentsCount == 1)
	vAssert(len(cs.Tags) == 1 && cs.Tags[0].Key == "comment" && cs.Discussion != nil && len(cs.Discussion.Comments) == 1)
	if cs.Discussion != nil && len(cs.Discussion.Comments) == 1 {
		c := cs.Discussion.Comments[0]
		vAssert(c.User == user && c.UserID == 5 && c.Timestamp.Equal(at) && c.Text == "hello & bye")
	}
	nt := o.Notes[0]
	nat := time.Date(2019, 6, 15, 8, 26, 4, 0, time.UTC)
	vAssert(int64(nt.ID) == id+4 && nt.Lat == 5.5 && nt.Lon == 6.5 && nt.URL == "u" && nt.CommentURL == "cu" && nt.CloseURL == "xu" && nt.Status == "open" && nt.DateCreated.Equal(nat))
	vAssert(len(nt.Comments) == 1)
	if len(nt.Comments) == 1 {
		c := nt.Comments[0]
		vAssert(c.Date.Equal(nat) && c.UserID == 3 && c.User == "n&m" && c.UserURL == "uu" && c.Action == "opened" && c.Text == "t" && c.HTML == "h")
	}
	u := o.Users[0]
	vAssert(int64(u.ID) == id+5 && u.Name == user && u.CreatedAt.Equal(at) && u.Description == "d" && len(u.Languages) == 2)
}
