//go:build verif

package osm

import (
	"encoding/xml"
	"fmt"
	"strings"
)

// Executable transcription of the augmented-diff part of C03 for
// counterexample search on the real code: an <action> element written by an
// independent writer (plain string building) with its attributes in any order
// and unknown attributes mixed in decodes to the action type and the elements
// written.
//
//@ func oracleC03ActionAttrs
//@   props C03
//@   oracle
//@   covers osm.Action
func oracleC03ActionAttrs(typeSel int, pos int, nExtra int, kind int, id int64) {
	abs := func(x int) int {
		if x < 0 {
			return -x
		}
		return x
	}
	types := []string{"create", "modify", "delete"}
	typ := types[abs(typeSel)%len(types)]
	n := abs(nExtra) % 4
	attrs := make([]string, 0, n+1)
	for i := 0; i < n; i++ {
		attrs = append(attrs, fmt.Sprintf(`x%d="v%d"`, i, i))
	}
	p := abs(pos) % (n + 1)
	attrs = append(attrs[:p], append([]string{`type="` + typ + `"`}, attrs[p:]...)...)
	if id < 0 {
		id = -(id + 1)
	}
	elems := []string{"node", "way", "relation"}
	el := elems[abs(kind)%3]
	doc := `<osm><action ` + strings.Join(attrs, "  ") + `><!-- c --><` + el + fmt.Sprintf(` id="%d"`, id) + ` unknown="1"/></action></osm>`

	var d Diff
	err := xml.Unmarshal([]byte(doc), &d)
	vAssert(err == nil)
	vAssert(len(d.Actions) == 1)
	a := d.Actions[0]
	vAssert(string(a.Type) == typ)
	vAssert(a.OSM != nil)
	switch el {
	case "node":
		vAssert(len(a.OSM.Nodes) == 1 && int64(a.OSM.Nodes[0].ID) == id)
	case "way":
		vAssert(len(a.OSM.Ways) == 1 && int64(a.OSM.Ways[0].ID) == id)
	case "relation":
		vAssert(len(a.OSM.Relations) == 1 && int64(a.OSM.Relations[0].ID) == id)
	}
}

// C03, root attributes: an <osm> or <osmChange> root written by an independent
// writer with any subset of version, generator, copyright, attribution and
// license in any order decodes to exactly those values.
//
//@ func oracleC03RootAttrs
//@   props C03
//@   oracle
//@   covers osm.Change
//@   covers (schema)C03#root-attr
func oracleC03RootAttrs(present int, rot int, change bool) {
	abs := func(x int) int {
		if x < 0 {
			if x == -x {
				return 0
			}
			return -x
		}
		return x
	}
	names := []string{"version", "generator", "copyright", "attribution", "license"}
	vals := map[string]string{}
	var attrs []string
	r := abs(rot) % 5
	for i := 0; i < 5; i++ {
		n := names[(i+r)%5]
		if abs(present)>>uint((i+r)%5)&1 == 1 {
			vals[n] = "v-" + n
			attrs = append(attrs, n+`="v-`+n+`"`)
		}
	}
	if change {
		doc := `<osmChange ` + strings.Join(attrs, " ") + `><create><node id="1"/></create></osmChange>`
		var c Change
		vAssert(xml.Unmarshal([]byte(doc), &c) == nil)
		vAssert(c.Version == vals["version"] && c.Generator == vals["generator"] && c.Copyright == vals["copyright"] && c.Attribution == vals["attribution"] && c.License == vals["license"])
		vAssert(c.Create != nil && len(c.Create.Nodes) == 1)
		return
	}
	doc := `<osm ` + strings.Join(attrs, " ") + `><node id="1"/></osm>`
	var o OSM
	vAssert(xml.Unmarshal([]byte(doc), &o) == nil)
	vAssert(o.Version == vals["version"] && o.Generator == vals["generator"] && o.Copyright == vals["copyright"] && o.Attribution == vals["attribution"] && o.License == vals["license"])
	vAssert(len(o.Nodes) == 1)
}
