//go:build verif

package osm

import (
	"encoding/xml"
)

func c04Counts(o *OSM) [7]int {
	if o == nil {
		return [7]int{-1}
	}
	b := 0
	if o.Bounds != nil {
		b = 1
	}
	return [7]int{b, len(o.Nodes), len(o.Ways), len(o.Relations), len(o.Changesets), len(o.Notes), len(o.Users)}
}

// c04Plain: printable ASCII without leading or trailing space
func c04Plain(s string) bool {
	for i := 0; i < len(s); i++ {
		if s[i] < 0x20 || s[i] > 0x7e {
			return false
		}
	}
	return s == "" || (s[0] != ' ' && s[len(s)-1] != ' ')
}

func c04Clean(o *OSM) {
	if o == nil {
		return
	}
	// nil elements of the collections cannot be written at all: not part of the claim
	var ns Nodes
	for _, x := range o.Nodes {
		if x != nil {
			x.XMLName = xmlNameJSONTypeNode{}
			ns = append(ns, x)
		}
	}
	o.Nodes = ns
	var ws Ways
	for _, x := range o.Ways {
		if x != nil {
			x.XMLName = xmlNameJSONTypeWay{}
			ws = append(ws, x)
		}
	}
	o.Ways = ws
	var rs Relations
	for _, x := range o.Relations {
		if x != nil {
			x.XMLName = xmlNameJSONTypeRel{}
			rs = append(rs, x)
		}
	}
	o.Relations = rs
	var cs Changesets
	for _, x := range o.Changesets {
		if x != nil {
			x.Change = nil
			x.XMLName = xmlNameJSONTypeCS{}
			if x.Discussion != nil {
				var cc []*ChangesetComment
				for _, c := range x.Discussion.Comments {
					if c != nil {
						cc = append(cc, c)
					}
				}
				x.Discussion.Comments = cc
				if len(cc) == 0 {
					x.Discussion = nil // an empty discussion element reads back as no discussion
				}
			}
			cs = append(cs, x)
		}
	}
	o.Changesets = cs
	var nts Notes
	for _, x := range o.Notes {
		if x != nil {
			x.XMLName = xmlNameJSONTypeNote{}
			for _, c := range x.Comments {
				if c != nil {
					c.XMLName = xml.Name{}
				}
			}
			nts = append(nts, x)
		}
	}
	o.Notes = nts
	var us Users
	for _, x := range o.Users {
		if x != nil {
			x.XMLName = xmlNameJSONTypeUser{}
			us = append(us, x)
		}
	}
	o.Users = us
}

// C04: "for OSM, Change and Diff containers ..., marshalling to XML and
// unmarshalling returns an equal value ... The marshalled text uses the OSM
// XML element and attribute names, so it is decodable by this library's
// whole-document decoder". Checked here: nothing is lost (bounds and the
// number of objects of every kind survive) and the decoded value marshals to
// the same text again.
//
//@ func oracleC04OSMRoundTrip
//@   props C04
//@   oracle
//@   covers osm.OSM
//@   covers osm.Date
func oracleC04OSMRoundTrip(o OSM) {
	c04Clean(&o)
	data, err := xml.Marshal(o)
	vAssume(err == nil)
	var back OSM
	err = xml.Unmarshal(data, &back)
	vAssert(err == nil)
	bc, oc := c04Counts(&back), c04Counts(&o)
	vAssert(bc[0] == oc[0]) // bounds
	vAssert(bc[1] == oc[1]) // nodes
	vAssert(bc[2] == oc[2]) // ways
	vAssert(bc[3] == oc[3]) // relations
	vAssert(bc[4] == oc[4]) // changesets
	vAssert(bc[5] == oc[5]) // notes
	vAssert(bc[6] == oc[6]) // users
	if o.Bounds != nil && back.Bounds != nil {
		vAssert(*o.Bounds == *back.Bounds)
	}
	// root attributes (plain text only: what XML cannot carry is not part of the claim)
	if c04Plain(o.Version) && c04Plain(o.Generator) && c04Plain(o.Copyright) && c04Plain(o.Attribution) && c04Plain(o.License) {
		vAssert(back.Version == o.Version && back.Generator == o.Generator && back.Copyright == o.Copyright && back.Attribution == o.Attribution && back.License == o.License)
	}
	again, err := xml.Marshal(back)
	if err == nil && string(again) != string(data) {
		a, b := string(data), string(again)
		i := 0
		for i < len(a) && i < len(b) && a[i] == b[i] {
			i++
		}
		lo := i - 150
		if lo < 0 {
			lo = 0
		}
		ha, hb := i+100, i+100
		if ha > len(a) {
			ha = len(a)
		}
		if hb > len(b) {
			hb = len(b)
		}
		panic("DBG " + a[lo:ha] + " ##### " + b[lo:hb])
	}
	vAssert(err == nil && string(again) == string(data))
}

//@ func oracleC04ChangeRoundTrip
//@   props C04
//@   oracle
//@   covers osm.marshalInnerChange
//@   covers osm.Change
//@   covers osm.OSM).marshalInner
func oracleC04ChangeRoundTrip(c Change) {
	c04Clean(c.Create)
	c04Clean(c.Modify)
	c04Clean(c.Delete)
	data, err := xml.Marshal(c)
	vAssume(err == nil)
	var back Change
	err = xml.Unmarshal(data, &back)
	vAssert(err == nil)
	vAssert(c04Counts(back.Create) == c04Counts(c.Create))
	vAssert(c04Counts(back.Modify) == c04Counts(c.Modify))
	vAssert(c04Counts(back.Delete) == c04Counts(c.Delete))
	again, err := xml.Marshal(back)
	vAssert(err == nil && string(again) == string(data))
}

// C04, augmented diffs: an action with any combination of its inline element
// block, old block and new block present marshals to XML that reads back with
// the same blocks present and the same element counts.
//
//@ func oracleC04DiffRoundTrip
//@   props C04
//@   oracle
//@   covers osm.Action
//@   covers osm.marshalInnerChange
func oracleC04DiffRoundTrip(kind int, hasOld bool, hasNew bool, inline bool, n int) {
	if n < 0 {
		n = -(n + 1)
	}
	mk := func(k int) *OSM {
		o := &OSM{}
		for i := 0; i <= k%3; i++ {
			o.Nodes = append(o.Nodes, &Node{ID: NodeID(10*k + i + 1), Version: 1, Visible: true})
		}
		return o
	}
	types := []ActionType{ActionCreate, ActionModify, ActionDelete}
	if kind < 0 {
		kind = -(kind + 1)
	}
	a := Action{Type: types[kind%3]}
	if inline {
		a.OSM = mk(n)
	}
	if hasOld {
		a.Old = mk(n + 1)
	}
	if hasNew {
		a.New = mk(n + 2)
	}
	d := Diff{Actions: []Action{a}}
	data, err := xml.Marshal(d)
	vAssert(err == nil)
	var back Diff
	vAssert(xml.Unmarshal(data, &back) == nil)
	vAssert(len(back.Actions) == 1)
	if len(back.Actions) != 1 {
		return
	}
	b := back.Actions[0]
	vAssert(b.Type == a.Type)
	vAssert((b.Old != nil) == hasOld && (b.New != nil) == hasNew)
	if hasOld && b.Old != nil {
		vAssert(len(b.Old.Nodes) == len(a.Old.Nodes))
	}
	if hasNew && b.New != nil {
		vAssert(len(b.New.Nodes) == len(a.New.Nodes))
	}
}
