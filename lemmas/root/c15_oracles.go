//go:build verif

package osm

import "time"

// Executable transcriptions of the C15 statement, used only for
// counterexample search on the real code when an obligation fails.

func c15CopyWay(w *Way) *Way {
	c := *w
	c.Nodes = append(WayNodes(nil), w.Nodes...)
	c.Updates = append(Updates(nil), w.Updates...)
	return &c
}

func c15CopyRelation(r *Relation) *Relation {
	c := *r
	c.Members = append(Members(nil), r.Members...)
	c.Updates = append(Updates(nil), r.Updates...)
	return &c
}

// "For fully annotated ways, the geometry-at-time-t query equals the geometry
// obtained by applying the updates up to t on a copy, in whatever order the
// update list is stored."
//
//@ func oracleC15GeometryAtTime
//@   props C15
//@   oracle
//@   covers (*github.com/paulmach/osm.Way).LineStringAt
//@   covers (*github.com/paulmach/osm.Way).LineString
func oracleC15GeometryAtTime(w *Way, t time.Time) {
	vAssume(w != nil)
	for i := range w.Nodes {
		w.Nodes[i].Version = 1 + i // fully annotated
		w.Nodes[i].Lat, w.Nodes[i].Lon = float64(10+i), float64(20+i)
	}
	for i := range w.Updates {
		vAssume(w.Updates[i].Index >= 0 && w.Updates[i].Index < len(w.Nodes))
		w.Updates[i].Version = 7 + i
		w.Updates[i].Lat, w.Updates[i].Lon = float64(100+i), float64(200+i)
	}
	c := c15CopyWay(w)
	got := w.LineStringAt(t)
	vAssume(c.ApplyUpdatesUpTo(t) == nil)
	want := c.LineString()
	vAssert(len(got) == len(want))
	for i := range want {
		if i < len(got) {
			vAssert(got[i] == want[i])
		}
	}
}

// "Applying ... updates up to time t changes exactly the children named by
// updates stamped at or before t ..., keeps the later updates pending in
// their original order, and reports an index beyond the child list as an
// error instead of touching memory."
//
//@ func oracleC15ApplyWay
//@   props C15
//@   oracle
//@   covers (*github.com/paulmach/osm.Way).ApplyUpdatesUpTo
//@   covers (*github.com/paulmach/osm.Way).applyUpdate
func oracleC15ApplyWay(w *Way, t time.Time) {
	vAssume(w != nil)
	for i := range w.Updates {
		vAssume(w.Updates[i].Index >= 0)
	}
	before := c15CopyWay(w)
	err := w.ApplyUpdatesUpTo(t)
	bad := false
	for _, u := range before.Updates {
		if !u.Timestamp.After(t) && u.Index >= len(before.Nodes) {
			bad = true
		}
	}
	vAssert((err != nil) == bad)
	if err != nil {
		return
	}
	vAssert(len(w.Nodes) == len(before.Nodes))
	for i := range before.Nodes {
		want := before.Nodes[i]
		for _, u := range before.Updates {
			if !u.Timestamp.After(t) && u.Index == i {
				want.Version, want.ChangesetID, want.Lat, want.Lon = u.Version, u.ChangesetID, u.Lat, u.Lon
			}
		}
		vAssert(w.Nodes[i] == want)
	}
	var pending Updates
	for _, u := range before.Updates {
		if u.Timestamp.After(t) {
			pending = append(pending, u)
		}
	}
	vAssert(len(pending) == len(w.Updates))
	for i := range pending {
		if i < len(w.Updates) {
			vAssert(pending[i] == w.Updates[i])
		}
	}
}

//@ func oracleC15ApplyRelation
//@   props C15
//@   oracle
//@   covers (*github.com/paulmach/osm.Relation).ApplyUpdatesUpTo
//@   covers (*github.com/paulmach/osm.Relation).applyUpdate
func oracleC15ApplyRelation(r *Relation, t time.Time) {
	vAssume(r != nil)
	for i := range r.Updates {
		vAssume(r.Updates[i].Index >= 0)
	}
	for i := range r.Members {
		r.Members[i].Nodes = nil
	}
	before := c15CopyRelation(r)
	shared := r.Updates // another holder of the same update list (a shallow copy of the relation, the caller's variable)
	err := r.ApplyUpdatesUpTo(t)
	// the list others hold is not written: only the relation's own members and its own pending list change
	for i := range before.Updates {
		vAssert(shared[i] == before.Updates[i])
	}
	bad := false
	for _, u := range before.Updates {
		if !u.Timestamp.After(t) && u.Index >= len(before.Members) {
			bad = true
		}
	}
	vAssert((err != nil) == bad)
	if err != nil {
		return
	}
	vAssert(len(r.Members) == len(before.Members))
	for i := range before.Members {
		want := before.Members[i]
		for _, u := range before.Updates {
			if !u.Timestamp.After(t) && u.Index == i {
				want.Version, want.ChangesetID, want.Lat, want.Lon = u.Version, u.ChangesetID, u.Lat, u.Lon
				if u.Reverse {
					want.Orientation = -want.Orientation
				}
			}
		}
		got := r.Members[i]
		vAssert(got.Type == want.Type && got.Ref == want.Ref && got.Role == want.Role && got.Version == want.Version &&
			got.ChangesetID == want.ChangesetID && got.Lat == want.Lat && got.Lon == want.Lon && got.Orientation == want.Orientation)
	}
	var pending Updates
	for _, u := range before.Updates {
		if u.Timestamp.After(t) {
			pending = append(pending, u)
		}
	}
	vAssert(len(pending) == len(r.Updates))
	for i := range pending {
		if i < len(r.Updates) {
			vAssert(pending[i] == r.Updates[i])
		}
	}
}

// "For update lists in which each child's updates are in time order, applying
// up to t1 and then up to a later t2 equals applying up to t2 directly."
//
//@ func oracleC15Composable
//@   props C15
//@   oracle
//@   covers (*github.com/paulmach/osm.Way).ApplyUpdatesUpTo
func oracleC15Composable(w *Way, t1, t2 time.Time) {
	vAssume(w != nil && !t2.Before(t1))
	for i := range w.Updates {
		vAssume(w.Updates[i].Index >= 0 && w.Updates[i].Index < len(w.Nodes))
		for j := 0; j < i; j++ {
			if w.Updates[j].Index == w.Updates[i].Index {
				vAssume(!w.Updates[i].Timestamp.Before(w.Updates[j].Timestamp))
			}
		}
	}
	a, b := c15CopyWay(w), c15CopyWay(w)
	vAssume(a.ApplyUpdatesUpTo(t1) == nil)
	vAssume(a.ApplyUpdatesUpTo(t2) == nil)
	vAssume(b.ApplyUpdatesUpTo(t2) == nil)
	vAssert(len(a.Nodes) == len(b.Nodes) && len(a.Updates) == len(b.Updates))
	for i := range a.Nodes {
		vAssert(a.Nodes[i] == b.Nodes[i])
	}
	for i := range a.Updates {
		if i < len(b.Updates) {
			vAssert(a.Updates[i] == b.Updates[i])
		}
	}
}
