//go:build verif

package osm

// With unique keys (the OSM data model), Find returns the value of *the* tag
// with that key wherever it stands in the list; Polygon's contract mentions
// the tags only through such lookups (of "area" and of the rule keys), so the
// classification depends on the tag set, not on tag order or unrelated tags.

//@ func lemmaC18FindUnique
//@   props C18
//@   nopanic
//@   requires 0 <= i && i < len(ts)
//@   requires forall a int, b int :: 0 <= a && a < b && b < len(ts) ==> ts[a].Key != ts[b].Key
func lemmaC18FindUnique(ts Tags, i int) {
	vAssert(ts.Find(ts[i].Key) == ts[i].Value)
}

//@ func lemmaC18FindAbsent
//@   props C18
//@   nopanic
//@   requires forall a int :: 0 <= a && a < len(ts) ==> ts[a].Key != k
func lemmaC18FindAbsent(ts Tags, k string) {
	vAssert(ts.Find(k) == "")
}
