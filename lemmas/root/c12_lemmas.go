//go:build verif

package osm

// The comparison used by SortByIndex is a strict total order on distinct
// (index, time, version) keys: irreflexive, asymmetric, transitive, total.
// Proved from the contract of updatesSortIndex.Less only.

//@ func lemmaC12LessStrictTotalOrder
//@   props C12
//@   nopanic
//@   requires 0 <= a && a < len(us) && 0 <= b && b < len(us) && 0 <= c && c < len(us)
func lemmaC12LessStrictTotalOrder(us Updates, a, b, c int) {
	s := updatesSortIndex(us)
	ab, ba, bc, ac, aa := s.Less(a, b), s.Less(b, a), s.Less(b, c), s.Less(a, c), s.Less(a, a)
	vAssert(!aa)
	vAssert(!(ab && ba))
	if ab && bc {
		vAssert(ac)
	}
	sameKey := us[a].Index == us[b].Index && us[a].Timestamp.Equal(us[b].Timestamp) && us[a].Version == us[b].Version
	if !sameKey {
		vAssert(ab || ba)
	}
	// primary key is the child index, then time, then version
	if us[a].Index < us[b].Index {
		vAssert(ab)
	}
	if us[a].Index == us[b].Index && us[a].Timestamp.Before(us[b].Timestamp) {
		vAssert(ab)
	}
	if us[a].Index == us[b].Index && us[a].Timestamp.Equal(us[b].Timestamp) && us[a].Version < us[b].Version {
		vAssert(ab)
	}
}
