//go:build verif

package osm

// Executable transcription of the C18 statement (published polygon-features
// rules) for counterexample search on the real code.

type c18rule struct {
	key, cond string
	values    []string
}

var c18published = []c18rule{
	{"building", "all", nil},
	{"highway", "whitelist", []string{"services", "rest_area", "escape", "elevator"}},
	{"natural", "blacklist", []string{"coastline", "cliff", "ridge", "arete", "tree_row"}},
	{"landuse", "all", nil},
	{"waterway", "whitelist", []string{"riverbank", "dock", "boatyard", "dam"}},
	{"amenity", "all", nil}, {"leisure", "all", nil},
	{"barrier", "whitelist", []string{"city_wall", "ditch", "hedge", "retaining_wall", "wall", "spikes"}},
	{"railway", "whitelist", []string{"station", "turntable", "roundhouse", "platform"}},
	{"boundary", "all", nil},
	{"man_made", "blacklist", []string{"cutline", "embankment", "pipeline"}},
	{"power", "whitelist", []string{"plant", "substation", "generator", "transformer"}},
	{"place", "all", nil}, {"shop", "all", nil},
	{"aeroway", "blacklist", []string{"taxiway"}},
	{"tourism", "all", nil}, {"historic", "all", nil}, {"public_transport", "all", nil}, {"office", "all", nil},
	{"building:part", "all", nil}, {"military", "all", nil}, {"ruins", "all", nil}, {"area:highway", "all", nil},
	{"craft", "all", nil}, {"golf", "all", nil}, {"indoor", "all", nil},
}

//@ func oracleC18Polygon
//@   props C18
//@   oracle
//@   covers osm.init
//@   covers Polygon
func oracleC18Polygon(sel []int, nNodes int, closed bool, rot int, ruleSel int, valSel int, annot int) {
	abs := func(x int) int {
		if x < 0 {
			return -x
		}
		return x
	}
	// build a tag set with unique keys from the selector
	keys := []string{"area", "name", "source"}
	for _, r := range c18published {
		keys = append(keys, r.key)
	}
	var tags Tags
	used := map[string]bool{}
	{
		// one tag chosen directly: a rule key with one of its listed values (or another value)
		r := c18published[abs(ruleSel)%len(c18published)]
		vals := append([]string{"yes", "x"}, r.values...)
		tags = append(tags, Tag{Key: r.key, Value: vals[abs(valSel)%len(vals)]})
		used[r.key] = true
	}
	for i, s := range sel {
		k := keys[abs(s*7+i*3)%len(keys)]
		if used[k] {
			continue
		}
		used[k] = true
		vals := []string{"yes", "no", "", "x"}
		for _, r := range c18published {
			if r.key == k {
				vals = append(vals, r.values...)
			}
		}
		tags = append(tags, Tag{Key: k, Value: vals[abs(s+i)%len(vals)]})
	}
	n := abs(nNodes) % 6
	w := &Way{Tags: tags}
	for i := 0; i < n; i++ {
		w.Nodes = append(w.Nodes, WayNode{ID: NodeID(i + 1)})
	}
	if closed && n > 0 {
		w.Nodes[n-1].ID = w.Nodes[0].ID
	}
	// closedness is a matter of node refs: annotations of the end nodes (version, changeset,
	// location) do not take part
	if n > 0 {
		switch abs(annot) % 3 {
		case 1:
			w.Nodes[0].Version, w.Nodes[0].ChangesetID, w.Nodes[0].Lat, w.Nodes[0].Lon = 3, 7, 1.5, 2.5
		case 2:
			w.Nodes[n-1].Version, w.Nodes[n-1].Lat = 2, -1.5
		}
	}
	find := func(k string) string {
		for _, t := range tags {
			if t.Key == k {
				return t.Value
			}
		}
		return ""
	}
	want := false
	if n > 3 && w.Nodes[0].ID == w.Nodes[n-1].ID {
		if a := find("area"); a == "no" {
			want = false
		} else if a != "" {
			want = true
		} else {
			for _, r := range c18published {
				v := find(r.key)
				if v == "" || v == "no" {
					continue
				}
				in := false
				for _, x := range r.values {
					if x == v {
						in = true
					}
				}
				if r.cond == "all" || (r.cond == "whitelist" && in) || (r.cond == "blacklist" && !in) {
					want = true
				}
			}
		}
	}
	vAssert(w.Polygon() == want)
	// the answer depends only on the tag set, not on tag order
	if len(tags) > 1 {
		k := abs(rot) % len(tags)
		w2 := &Way{Nodes: w.Nodes, Tags: append(append(Tags{}, tags[k:]...), tags[:k]...)}
		vAssert(w2.Polygon() == want)
	}
	// relations: multipolygon or boundary
	r := &Relation{Tags: tags}
	t := find("type")
	vAssert(r.Polygon() == (t == "multipolygon" || t == "boundary"))
	for _, tv := range []string{"multipolygon", "boundary", "route"} {
		r2 := &Relation{Tags: append(Tags{{Key: "type", Value: tv}}, tags...)}
		vAssert(r2.Polygon() == (tv != "route"))
	}
}
