//go:build verif

package osm

import (
	"encoding/json"
	"fmt"
	"time"
)

// C05: "Marshalling OSM data to JSON produces ... osmjson: an elements array
// of objects each carrying its type, tags as a JSON object, way nodes as an
// array of ids, relation members as an array that is never null.
// Unmarshalling that output ... yields the same elements ...; optional
// top-level fields that are absent stay empty rather than turning into
// placeholder text."
//
// (Top-level bounds are a recorded finding of their own, see
// oracleC05BoundsElement; this oracle looks at documents without them.)
//
//@ func oracleC05JSONShape
//@   props C05
//@   oracle
//@   covers osm.OSM).UnmarshalJSON
//@   covers (schema)C05#
//@   covers osm.Members
//@   covers osm.WayNodes
//@   covers osm.marshalJSON
//@   covers osm.unmarshalJSON
//@   covers osm.Date
func oracleC05JSONShape(o OSM, dropVersion bool) {
	c04Clean(&o)
	o.Bounds = nil
	for _, w := range o.Ways {
		w.Updates, w.Bounds = nil, nil
	}
	for _, r := range o.Relations {
		r.Updates, r.Bounds = nil, nil
	}
	if dropVersion {
		o.Version = ""
	}
	if len(o.Notes) > 0 {
		// a note date with a sub-second part keeps it
		o.Notes[0].DateCreated = Date{Time: time.Date(2019, 6, 15, 8, 26, 4, 123456789, time.UTC)}
	}
	data, err := json.Marshal(o)
	vAssume(err == nil)
	var doc map[string]interface{}
	vAssert(json.Unmarshal(data, &doc) == nil)
	elems, ok := doc["elements"].([]interface{})
	vAssert(ok)
	n := len(o.Nodes) + len(o.Ways) + len(o.Relations) + len(o.Changesets) + len(o.Notes) + len(o.Users)
	vAssert(len(elems) == n)
	for _, e := range elems {
		m, ok := e.(map[string]interface{})
		vAssert(ok)
		if !ok {
			continue
		}
		t, _ := m["type"].(string)
		vAssert(t == "node" || t == "way" || t == "relation" || t == "changeset" || t == "note" || t == "user")
		if t == "way" {
			_, isArr := m["nodes"].([]interface{})
			vAssert(isArr || m["nodes"] == nil)
			for _, x := range toSlice(m["nodes"]) {
				_, isNum := x.(float64)
				vAssert(isNum)
			}
		}
		if t == "relation" {
			_, isArr := m["members"].([]interface{})
			vAssert(isArr) // never null
		}
		if tags, has := m["tags"]; has {
			_, isObj := tags.(map[string]interface{})
			vAssert(isObj)
		}
	}
	var back OSM
	vAssert(json.Unmarshal(data, &back) == nil)
	vAssert(c04Counts(&back) == c04Counts(&o))
	vAssert(back.Version == o.Version) // in particular "" stays ""
	if len(o.Notes) > 0 && len(back.Notes) > 0 {
		vAssert(back.Notes[0].DateCreated.Equal(o.Notes[0].DateCreated.Time))
	}
	vAssert(back.Generator == o.Generator && back.Copyright == o.Copyright && back.Attribution == o.Attribution && back.License == o.License)
	// every element is the one written at its position, nothing of an earlier element shows up in a
	// later one (ids, versions, users, tags; text fields compared when they are plain)
	for i := range o.Nodes {
		if i < len(back.Nodes) {
			a, b := o.Nodes[i], back.Nodes[i]
			vAssert(a.ID == b.ID && a.Version == b.Version && a.UserID == b.UserID && a.ChangesetID == b.ChangesetID && a.Visible == b.Visible && (!c05DistinctKeys(a.Tags) || len(a.Tags) == len(b.Tags)))
			if c04Plain(a.User) {
				vAssert(a.User == b.User)
			}
		}
	}
	for i := range o.Relations {
		if i < len(back.Relations) {
			a, b := o.Relations[i], back.Relations[i]
			vAssert(a.ID == b.ID && a.Version == b.Version && a.UserID == b.UserID && a.ChangesetID == b.ChangesetID && len(a.Members) == len(b.Members) && (!c05DistinctKeys(a.Tags) || len(a.Tags) == len(b.Tags)))
		}
	}
	for i := range o.Ways {
		if i < len(back.Ways) {
			vAssert(o.Ways[i].ID == back.Ways[i].ID && o.Ways[i].Version == back.Ways[i].Version && o.Ways[i].UserID == back.Ways[i].UserID && (!c05DistinctKeys(o.Ways[i].Tags) || len(o.Ways[i].Tags) == len(back.Ways[i].Tags)))
			vAssert(len(back.Ways[i].Nodes) == len(o.Ways[i].Nodes))
			for j := range o.Ways[i].Nodes {
				if j < len(back.Ways[i].Nodes) {
					vAssert(back.Ways[i].Nodes[j].ID == o.Ways[i].Nodes[j].ID)
				}
			}
		}
	}
}

// a tag list with repeated keys is not an osmjson tags object (keys of an object are unique)
func c05DistinctKeys(tags Tags) bool {
	seen := map[string]bool{}
	for _, t := range tags {
		if seen[t.Key] {
			return false
		}
		seen[t.Key] = true
	}
	return true
}

func toSlice(x interface{}) []interface{} {
	s, _ := x.([]interface{})
	return s
}

// The recorded finding of C05: the top-level bounds are put into the elements
// array as an object without a type, and the document cannot be read back.
//
//@ func oracleC05BoundsElement
//@   props C05
//@   oracle
//@   covers osm.OSM).MarshalJSON
func oracleC05BoundsElement(b Bounds, withNode bool) {
	o := OSM{Bounds: &b}
	if withNode {
		o.Nodes = Nodes{{ID: 1}}
	}
	data, err := json.Marshal(o)
	vAssume(err == nil)
	var back OSM
	vAssert(json.Unmarshal(data, &back) == nil)
}

type c05Codec struct{ marshals, unmarshals int }

func (c *c05Codec) Marshal(v interface{}) ([]byte, error) { c.marshals++; return json.Marshal(v) }
func (c *c05Codec) Unmarshal(data []byte, v interface{}) error {
	c.unmarshals++
	return json.Unmarshal(data, v)
}

// C05: "The results are the same whether the standard library codec or a
// user-installed JSON codec is used." Each hook is honoured on its own.
//
//@ func oracleC05CustomCodec
//@   props C05
//@   oracle
//@   covers osm.marshalJSON
//@   covers osm.unmarshalJSON
func oracleC05CustomCodec(o OSM, hooks int) {
	c04Clean(&o)
	o.Bounds = nil
	for _, w := range o.Ways {
		w.Updates, w.Bounds = nil, nil
	}
	for _, r := range o.Relations {
		r.Updates, r.Bounds = nil, nil
	}
	vAssume(len(o.Nodes)+len(o.Ways) > 0)
	std, err := json.Marshal(o)
	vAssume(err == nil)
	var stdBack OSM
	vAssume(json.Unmarshal(std, &stdBack) == nil)

	codec := &c05Codec{}
	h := hooks % 3
	if h < 0 {
		h = -h
	}
	defer func() {
		CustomJSONMarshaler, CustomJSONUnmarshaler = nil, nil
		if r := recover(); r != nil {
			vAssert(false) // a lone hook must not crash the other direction
		}
	}()
	if h == 0 || h == 2 {
		CustomJSONMarshaler = codec
	}
	if h == 1 || h == 2 {
		CustomJSONUnmarshaler = codec
	}
	data, err := json.Marshal(o)
	vAssert(err == nil && string(data) == string(std))
	var back OSM
	vAssert(json.Unmarshal(data, &back) == nil)
	vAssert(c04Counts(&back) == c04Counts(&stdBack))
	vAssert((codec.marshals > 0) == (h == 0 || h == 2))
	vAssert((codec.unmarshals > 0) == (h == 1 || h == 2))
}

// C05, element keys: an osmjson document written by hand (Overpass style:
// version as a number, unknown top-level keys) decodes to the values written,
// and marshalling an element produces exactly the documented keys.
//
//@ func oracleC05Elements
//@   props C05
//@   oracle
//@   covers (schema)C05#format
//@   covers osm.findType
func oracleC05Elements(idSel int, withMeta bool) {
	id := int64(idSel%100000 + 100001)
	meta := ""
	if withMeta {
		meta = `,"timestamp":"2012-01-02T03:04:05Z","version":3,"changeset":77,"user":"u","uid":9`
	}
	doc := fmt.Sprintf(`{"version":0.6,"generator":"g","osm3s":{"x":1},"elements":[`+
		`{"type":"node","id":%d,"lat":1.5,"lon":-2.5%s,"tags":{"name":"n"}},`+
		`{"type":"way","id":%d,"nodes":[%d,%d]%s,"tags":{"highway":"path"}},`+
		`{"type":"relation","id":%d,"members":[{"type":"way","ref":%d,"role":"outer"},{"type":"node","ref":%d,"role":""}]%s,"tags":{"type":"multipolygon"}}]}`,
		id, meta, id+1, id, id+5, meta, id+2, id+1, id, meta)
	if idSel%2 == 0 {
		// key order inside an element is free: "type" need not come first (members carry a "type" of their own)
		doc = fmt.Sprintf(`{"version":0.6,"generator":"g","osm3s":{"x":1},"elements":[`+
			`{"id":%d,"lon":-2.5,"lat":1.5%s,"tags":{"name":"n"},"type":"node"},`+
			`{"nodes":[%d,%d],"id":%d%s,"tags":{"highway":"path"},"type":"way"},`+
			`{"members":[{"type":"way","ref":%d,"role":"outer"},{"type":"node","ref":%d,"role":""}],"id":%d%s,"type":"relation","tags":{"type":"multipolygon"}}]}`,
			id, meta, id, id+5, id+1, meta, id+1, id, id+2, meta)
	}
	var o OSM
	err := json.Unmarshal([]byte(doc), &o)
	vAssert(err == nil)
	vAssert(len(o.Nodes) == 1 && len(o.Ways) == 1 && len(o.Relations) == 1)
	if err != nil || len(o.Nodes) != 1 || len(o.Ways) != 1 || len(o.Relations) != 1 {
		return
	}
	at := time.Date(2012, 1, 2, 3, 4, 5, 0, time.UTC)
	n, w, r := o.Nodes[0], o.Ways[0], o.Relations[0]
	vAssert(int64(n.ID) == id && n.Lat == 1.5 && n.Lon == -2.5 && n.Tags.Find("name") == "n")
	vAssert(int64(w.ID) == id+1 && len(w.Nodes) == 2 && int64(w.Nodes[0].ID) == id && int64(w.Nodes[1].ID) == id+5 && w.Tags.Find("highway") == "path")
	vAssert(int64(r.ID) == id+2 && len(r.Members) == 2 && r.Members[0].Type == TypeWay && r.Members[0].Ref == id+1 && r.Members[0].Role == "outer" && r.Members[1].Type == TypeNode && r.Members[1].Ref == id)
	if withMeta {
		vAssert(n.Timestamp.Equal(at) && n.Version == 3 && n.ChangesetID == 77 && n.User == "u" && n.UserID == 9)
		vAssert(w.Timestamp.Equal(at) && w.Version == 3 && w.ChangesetID == 77 && w.User == "u" && w.UserID == 9)
		vAssert(r.Timestamp.Equal(at) && r.Version == 3 && r.ChangesetID == 77 && r.User == "u" && r.UserID == 9)
	}
	// marshalling: the documented keys
	keys := func(v interface{}) map[string]interface{} {
		data, err := json.Marshal(v)
		vAssert(err == nil)
		m := map[string]interface{}{}
		vAssert(json.Unmarshal(data, &m) == nil)
		return m
	}
	has := func(m map[string]interface{}, ks ...string) bool {
		for _, k := range ks {
			if _, ok := m[k]; !ok {
				return false
			}
		}
		return true
	}
	nm, wm, rm := keys(n), keys(w), keys(r)
	vAssert(nm["type"] == "node" && has(nm, "id", "lat", "lon", "tags"))
	vAssert(wm["type"] == "way" && has(wm, "id", "nodes", "tags"))
	vAssert(rm["type"] == "relation" && has(rm, "id", "members", "tags"))
	if withMeta {
		vAssert(has(nm, "timestamp", "version", "changeset", "user", "uid") && has(wm, "timestamp", "version", "changeset", "user", "uid") && has(rm, "timestamp", "version", "changeset", "user", "uid"))
	}
	if ms, ok := rm["members"].([]interface{}); ok && len(ms) == 2 {
		m0, _ := ms[0].(map[string]interface{})
		vAssert(m0["type"] == "way" && m0["role"] == "outer" && has(m0, "ref"))
	} else {
		vAssert(false)
	}
}
