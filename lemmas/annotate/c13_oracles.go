//go:build verif

package annotate

import (
	"context"

	"github.com/paulmach/osm"
)

// Executable transcription of the C13 statement, used only for
// counterexample search on the real code when an obligation fails.

type c13Hist struct {
	Nodes     []*osm.Node
	Ways      []*osm.Way
	Relations []*osm.Relation
}

func c13Clean(o *osm.OSM, seen map[interface{}]bool) *osm.OSM {
	if o == nil {
		return nil
	}
	r := &osm.OSM{}
	for _, n := range o.Nodes {
		if n != nil && !seen[n] {
			seen[n] = true
			n.ID = osm.NodeID(int64(n.ID)&3 + 1)
			r.Nodes = append(r.Nodes, n)
		}
	}
	for _, w := range o.Ways {
		if w != nil && !seen[w] {
			seen[w] = true
			w.ID = osm.WayID(int64(w.ID)&3 + 1)
			r.Ways = append(r.Ways, w)
		}
	}
	for _, x := range o.Relations {
		if x != nil && !seen[x] {
			seen[x] = true
			x.ID = osm.RelationID(int64(x.ID)&3 + 1)
			r.Relations = append(r.Relations, x)
		}
	}
	return r
}

//@ func oracleC13Change
//@   props C13
//@   oracle
//@   covers annotate.addUpdate
//@   covers annotate.findPrevious
//@   covers annotate.checkErr
//@   covers annotate.osmCount
//@   covers annotate.Change
func oracleC13Change(change *osm.Change, h c13Hist, ignore bool) {
	vAssume(change != nil)
	seen := map[interface{}]bool{}
	change.Create, change.Modify, change.Delete = c13Clean(change.Create, seen), c13Clean(change.Modify, seen), c13Clean(change.Delete, seen)
	hist := c13Clean(&osm.OSM{Nodes: h.Nodes, Ways: h.Ways, Relations: h.Relations}, seen)
	ds := &osm.HistoryDatasource{}
	for _, n := range hist.Nodes {
		vAssume(n.Version >= 0)
		if ds.Nodes == nil {
			ds.Nodes = map[osm.NodeID]osm.Nodes{}
		}
		ds.Nodes[n.ID] = append(ds.Nodes[n.ID], n)
	}
	for _, w := range hist.Ways {
		vAssume(w.Version >= 0)
		if ds.Ways == nil {
			ds.Ways = map[osm.WayID]osm.Ways{}
		}
		ds.Ways[w.ID] = append(ds.Ways[w.ID], w)
	}
	for _, r := range hist.Relations {
		vAssume(r.Version >= 0)
		if ds.Relations == nil {
			ds.Relations = map[osm.RelationID]osm.Relations{}
		}
		ds.Relations[r.ID] = append(ds.Relations[r.ID], r)
	}
	// expected actions
	type exp struct {
		typ      osm.ActionType
		el       osm.Element
		old      osm.Element
		missing  bool
		wantVis  bool
	}
	var want []exp
	prevOf := func(e osm.Element) osm.Element {
		var best osm.Element
		bv := -1
		switch x := e.(type) {
		case *osm.Node:
			for _, c := range ds.Nodes[x.ID] {
				if c.Version < x.Version && c.Version > bv {
					best, bv = c, c.Version
				}
			}
		case *osm.Way:
			for _, c := range ds.Ways[x.ID] {
				if c.Version < x.Version && c.Version > bv {
					best, bv = c, c.Version
				}
			}
		case *osm.Relation:
			for _, c := range ds.Relations[x.ID] {
				if c.Version < x.Version && c.Version > bv {
					best, bv = c, c.Version
				}
			}
		}
		return best
	}
	add := func(o *osm.OSM, typ osm.ActionType) {
		if o == nil {
			return
		}
		for _, e := range o.Elements() {
			if typ == osm.ActionCreate {
				want = append(want, exp{typ: typ, el: e, wantVis: true})
				continue
			}
			p := prevOf(e)
			if p == nil {
				want = append(want, exp{typ: osm.ActionCreate, el: e, missing: true, wantVis: true})
			} else {
				want = append(want, exp{typ: typ, el: e, old: p, wantVis: typ == osm.ActionModify})
			}
		}
	}
	add(change.Create, osm.ActionCreate)
	add(change.Modify, osm.ActionModify)
	add(change.Delete, osm.ActionDelete)
	anyMissing := false
	for _, w := range want {
		if w.missing {
			anyMissing = true
		}
	}
	diff, err := Change(context.Background(), change, ds, IgnoreMissingChildren(ignore))
	if anyMissing && !ignore {
		vAssert(err != nil && diff == nil)
		if err != nil {
			_, ok := err.(*NoVisibleChildError)
			vAssert(ok)
		}
		return
	}
	vAssert(err == nil && diff != nil)
	if err != nil || diff == nil {
		return
	}
	vAssert(len(diff.Actions) == len(want))
	for i, w := range want {
		if i >= len(diff.Actions) {
			break
		}
		a := diff.Actions[i]
		vAssert(a.Type == w.typ)
		var gotNew, gotOld *osm.OSM
		if w.typ == osm.ActionCreate {
			gotNew = a.OSM
			vAssert(a.Old == nil && a.New == nil)
		} else {
			gotNew, gotOld = a.New, a.Old
			vAssert(a.OSM == nil)
		}
		vAssert(gotNew != nil)
		if gotNew != nil {
			els := gotNew.Elements()
			vAssert(len(els) == 1 && els[0] == w.el)
		}
		if w.old != nil {
			vAssert(gotOld != nil)
			if gotOld != nil {
				els := gotOld.Elements()
				vAssert(len(els) == 1)
				if len(els) == 1 {
					// same greatest version below (the history may hold several entries with that version)
					vAssert(els[0].ElementID().Version() == w.old.ElementID().Version() && els[0].FeatureID() == w.old.FeatureID())
				}
			}
		}
		switch x := w.el.(type) {
		case *osm.Node:
			vAssert(x.Visible == w.wantVis)
		case *osm.Way:
			vAssert(x.Visible == w.wantVis)
		case *osm.Relation:
			vAssert(x.Visible == w.wantVis)
		}
	}
}
