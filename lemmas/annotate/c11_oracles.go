//go:build verif

package annotate

import (
	"time"

	"github.com/paulmach/osm"
)

// C11: what the way and relation wrappers tell the annotation core about a
// parent version is the element's own data; a missing commit time is reported
// as the zero time (the core then works from timestamp and threshold), never
// as the timestamp.
//
//@ func oracleC11Wrappers
//@   props C11
//@   oracle
//@   covers annotate.parentWay
//@   covers annotate.parentRelation
func oracleC11Wrappers(version int, cs int64, visible bool, tsHours int, committed bool, cHours int) {
	if tsHours < 0 {
		tsHours = -(tsHours + 1)
	}
	if cHours < 0 {
		cHours = -(cHours + 1)
	}
	ts := time.Date(2013, 1, 1, 0, 0, 0, 0, time.UTC).Add(time.Duration(tsHours%10000) * time.Hour)
	var cp *time.Time
	want := time.Time{}
	if committed {
		c := ts.Add(time.Duration(cHours%100) * time.Minute)
		cp, want = &c, c
	}
	w := &parentWay{Way: &osm.Way{ID: 1, Version: version, ChangesetID: osm.ChangesetID(cs), Visible: visible, Timestamp: ts, Committed: cp}}
	vAssert(w.Version() == version && w.ChangesetID() == osm.ChangesetID(cs) && w.Visible() == visible && w.Timestamp().Equal(ts))
	vAssert(w.Committed().Equal(want) && w.Committed().IsZero() == !committed)
	r := &parentRelation{Relation: &osm.Relation{ID: 1, Version: version, ChangesetID: osm.ChangesetID(cs), Visible: visible, Timestamp: ts, Committed: cp}}
	vAssert(r.Version() == version && r.ChangesetID() == osm.ChangesetID(cs) && r.Visible() == visible && r.Timestamp().Equal(ts))
	vAssert(r.Committed().Equal(want) && r.Committed().IsZero() == !committed)
}
