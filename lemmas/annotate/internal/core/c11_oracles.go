//go:build verif

package core

import (
	"context"
	"time"

	"github.com/paulmach/osm"
	"github.com/paulmach/osm/annotate/shared"
)

type c11Parent struct {
	committed time.Time
	cs        osm.ChangesetID
}

func (p *c11Parent) ID() osm.FeatureID              { return osm.WayID(1).FeatureID() }
func (p *c11Parent) ChangesetID() osm.ChangesetID   { return p.cs }
func (p *c11Parent) Version() int                   { return 2 }
func (p *c11Parent) Visible() bool                  { return true }
func (p *c11Parent) Timestamp() time.Time           { return p.committed }
func (p *c11Parent) Committed() time.Time           { return p.committed }
func (p *c11Parent) Refs() (osm.FeatureIDs, []bool) { return nil, nil }
func (p *c11Parent) SetChild(int, *shared.Child)    {}

// C11 (commit-time regime): "the parent's update list contains exactly the
// later child versions up to the next parent version": the exclusive upper end
// computed by nextVersionIndex is one past the last child version committed
// strictly before the next parent (all versions if there is none), with the one
// documented exception of a child not visible at the next parent while the
// next parent is not after the current child version.
//
//@ func oracleC11NextVersionIndex
//@   props C11
//@   oracle
func oracleC11NextVersionIndex(gaps []int, visible []bool, parentAt int, cur int, noNext bool, thresholdMin int) {
	n := len(gaps)
	vAssume(n >= 1 && n <= 8)
	base := time.Date(2015, 1, 1, 0, 0, 0, 0, time.UTC)
	var cl ChildList
	t := base
	for i := 0; i < n; i++ {
		g := gaps[i]
		if g < 0 {
			g = -g
		}
		t = t.Add(time.Duration(g%5+1) * time.Hour) // strictly increasing commit times
		vis := true
		if i < len(visible) {
			vis = visible[i]
		}
		cl = append(cl, &shared.Child{Version: i + 1, VersionIndex: i, Timestamp: t, Committed: t, Visible: vis})
	}
	if parentAt < 0 {
		parentAt = -parentAt
	}
	// the next parent is committed at some hour offset, possibly exactly at a child's commit time
	T := base.Add(time.Duration(parentAt%(5*n+3)) * time.Hour)
	var current *shared.Child
	if cur < 0 {
		cur = -cur
	}
	if cur%(n+1) < n {
		current = cl[cur%(n+1)]
	}
	if thresholdMin < 0 {
		thresholdMin = -thresholdMin
	}
	opts := &Options{Threshold: time.Duration(thresholdMin%90) * time.Minute}
	var next Parent
	if !noNext {
		next = &c11Parent{committed: T, cs: 7}
	}
	got := nextVersionIndex(current, cl, next, opts)
	if noNext {
		vAssert(got == n)
		return
	}
	before := 0
	for _, c := range cl {
		if c.Committed.Before(T) {
			before++
		}
	}
	exception := got == 0 && current != nil && !T.After(current.Committed)
	vAssert(got == before || exception)
}

// C11 (pre-commit-time regime, "same-changeset forward grouping"): a visible
// child version in the window after the query time that belongs to another
// changeset is ignored, so taking it out of the history changes nothing about
// which version FindVisible picks.
//
//@ func oracleC11IgnoredForward
//@   props C11
//@   oracle
//@   covers ChildList).FindVisible
func oracleC11IgnoredForward(gapsSec []int, visible []bool, sameCS []bool, atSec int, epsSec int) {
	n := len(gapsSec)
	vAssume(n >= 1 && n <= 8)
	abs := func(x int) int {
		if x < 0 {
			return -x
		}
		return x
	}
	base := time.Date(2009, 1, 1, 0, 0, 0, 0, time.UTC) // before osm.CommitInfoStart: no commit times
	eps := time.Duration(abs(epsSec)%20+1) * time.Second
	at := base.Add(time.Duration(abs(atSec)%60) * time.Second)
	const cid = osm.ChangesetID(7)
	var cl, kept ChildList
	t := base
	for i := 0; i < n; i++ {
		t = t.Add(time.Duration(abs(gapsSec[i])%12) * time.Second) // non-decreasing timestamps
		c := &shared.Child{Version: i + 1, VersionIndex: i, Timestamp: t, Visible: true, ChangesetID: cid}
		if i < len(visible) {
			c.Visible = visible[i]
		}
		if i < len(sameCS) && !sameCS[i] {
			c.ChangesetID = cid + 1
		}
		cl = append(cl, c)
		ignored := c.Visible && c.Timestamp.After(at) && !c.Timestamp.After(at.Add(eps)) && c.ChangesetID != cid
		if !ignored {
			kept = append(kept, c)
		}
	}
	vAssert(cl.FindVisible(cid, at, eps) == kept.FindVisible(cid, at, eps))
}

// ---- Compute as a whole, commit-time regime, threshold 0 ----

type c11P struct {
	at      time.Time
	cs      osm.ChangesetID
	visible bool
	refs    osm.FeatureIDs
	set     map[int]*shared.Child
	setN    int
}

func (p *c11P) ID() osm.FeatureID            { return osm.WayID(1).FeatureID() }
func (p *c11P) ChangesetID() osm.ChangesetID { return p.cs }
func (p *c11P) Version() int                 { return 1 }
func (p *c11P) Visible() bool                { return p.visible }
func (p *c11P) Timestamp() time.Time         { return p.at }
func (p *c11P) Committed() time.Time         { return p.at }
func (p *c11P) Refs() (osm.FeatureIDs, []bool) {
	return p.refs, make([]bool, len(p.refs))
}
func (p *c11P) SetChild(i int, c *shared.Child) {
	p.setN++
	p.set[i] = c
}

type c11DS struct {
	lists   map[osm.FeatureID]ChildList
	missing map[osm.FeatureID]bool
}

type c11NotFound struct{}

func (c11NotFound) Error() string { return "not found" }

func (d *c11DS) Get(ctx context.Context, id osm.FeatureID) (ChildList, error) {
	if d.missing[id] {
		return nil, c11NotFound{}
	}
	return d.lists[id], nil // may be empty: a datasource that answers "no rows" without an error
}
func (d *c11DS) NotFound(err error) bool { _, ok := err.(c11NotFound); return ok }

// C11: "each child reference carries the version ... of the child that was
// current when that parent version was committed, and the parent's update
// list contains exactly the later child versions up to the next parent
// version ... Deleted parent versions receive no annotations, and inconsistent
// or missing child histories produce the documented typed errors unless the
// corresponding ignore option is set." Reference computed here directly from
// commit times; Compute must agree and must not crash.
//
//@ func oracleC11Compute
//@   props C11 C12
//@   oracle
//@   covers core.Compute
//@   covers core.nextVersionIndex
//@   covers core.mapChildLocs
//@   covers GroupByParent
func oracleC11Compute(childHours [][]int, childVis [][]bool, parentHours []int, parentVis []bool, refSel []int, missingSel int, ignoreInc bool, ignoreMissing bool) {
	abs := func(x int) int {
		if x < 0 {
			if x == -x {
				return 0
			}
			return -x
		}
		return x
	}
	nc := len(childHours)
	vAssume(nc >= 1 && nc <= 3 && len(parentHours) >= 1 && len(parentHours) <= 4)
	base := time.Date(2015, 1, 1, 0, 0, 0, 0, time.UTC)
	ds := &c11DS{lists: map[osm.FeatureID]ChildList{}, missing: map[osm.FeatureID]bool{}}
	fids := make([]osm.FeatureID, nc)
	for ci := 0; ci < nc; ci++ {
		fids[ci] = osm.NodeID(ci + 1).FeatureID()
		vAssume(len(childHours[ci]) <= 5)
		t := base
		var cl ChildList
		for k, g := range childHours[ci] {
			t = t.Add(time.Duration(abs(g)%4+1) * time.Hour) // strictly increasing commit times
			vis := true
			if ci < len(childVis) && k < len(childVis[ci]) {
				vis = childVis[ci][k]
			}
			cl = append(cl, &shared.Child{ID: fids[ci], Version: k + 1, VersionIndex: k, Timestamp: t, Committed: t, Visible: vis, ChangesetID: osm.ChangesetID(100 + k)})
		}
		ds.lists[fids[ci]] = cl // nil when there are no versions
	}
	if m := abs(missingSel) % (nc + 2); m < nc {
		ds.missing[fids[m]] = true
	}
	var parents []Parent
	var ps []*c11P
	t := base
	for i, g := range parentHours {
		t = t.Add(time.Duration(abs(g)%5+1) * time.Hour)
		p := &c11P{at: t.Add(30 * time.Minute), cs: 7, visible: true, set: map[int]*shared.Child{}} // never at a child's commit time
		if i < len(parentVis) {
			p.visible = parentVis[i]
		}
		// references: up to three, children may repeat within a parent
		for j := 0; j < 3; j++ {
			s := 0
			if i*3+j < len(refSel) {
				s = abs(refSel[i*3+j])
			}
			if s%(nc+1) < nc {
				p.refs = append(p.refs, fids[s%(nc+1)])
			}
		}
		ps = append(ps, p)
		parents = append(parents, p)
	}
	opts := &Options{IgnoreInconsistency: ignoreInc, IgnoreMissingChildren: ignoreMissing}
	got, err := Compute(context.Background(), parents, ds, opts)

	// reference
	type upd struct{ idx, version int }
	wantErr := false
	want := make([]map[upd]int, len(ps))
	wantSet := make([]map[int]*shared.Child, len(ps))
	for i, p := range ps {
		want[i] = map[upd]int{}
		wantSet[i] = map[int]*shared.Child{}
		for j, fid := range p.refs {
			if ds.missing[fid] {
				if !ignoreMissing {
					wantErr = true
				}
				continue
			}
			if !p.visible {
				continue // a deleted parent version receives nothing
			}
			cl := ds.lists[fid]
			var cur *shared.Child
			for _, c := range cl {
				if !c.Committed.After(p.at) {
					cur = c
				}
			}
			if cur != nil && !cur.Visible {
				cur = nil
			}
			if cur == nil {
				if !ignoreInc {
					wantErr = true
				}
			} else {
				wantSet[i][j] = cur
			}
			for _, c := range cl {
				if !c.Committed.After(p.at) {
					continue
				}
				if i+1 < len(ps) && !c.Committed.Before(ps[i+1].at) {
					continue
				}
				if !c.Visible {
					if !ignoreInc {
						wantErr = true
					}
					continue
				}
				want[i][upd{j, c.Version}]++
			}
		}
	}
	if wantErr {
		vAssert(err != nil)
		return
	}
	vAssert(err == nil && len(got) == len(ps))
	if err != nil || len(got) != len(ps) {
		return
	}
	for i, p := range ps {
		if !p.visible {
			vAssert(p.setN == 0 && len(got[i]) == 0)
			continue
		}
		for j := range p.refs {
			vAssert(p.set[j] == wantSet[i][j])
		}
		have := map[upd]int{}
		for k, u := range got[i] {
			have[upd{u.Index, u.Version}]++
			if k > 0 {
				// C12's order: by index, within an index by time, then by child version
				a := got[i][k-1]
				vAssert(a.Index < u.Index || (a.Index == u.Index && (a.Timestamp.Before(u.Timestamp) ||
					(a.Timestamp.Equal(u.Timestamp) && a.Version <= u.Version))))
			}
		}
		vAssert(len(have) == len(want[i]))
		for k, n := range want[i] {
			vAssert(have[k] == n)
		}
	}
}
