//go:build verif

package core

import (
	"time"

	"github.com/paulmach/osm"
	"github.com/paulmach/osm/annotate/shared"
)

type c11Parent struct {
	committed time.Time
	cs        osm.ChangesetID
}

func (p *c11Parent) ID() osm.FeatureID              { return osm.WayID(1).FeatureID() }
func (p *c11Parent) ChangesetID() osm.ChangesetID   { return p.cs }
func (p *c11Parent) Version() int                   { return 2 }
func (p *c11Parent) Visible() bool                  { return true }
func (p *c11Parent) Timestamp() time.Time           { return p.committed }
func (p *c11Parent) Committed() time.Time           { return p.committed }
func (p *c11Parent) Refs() (osm.FeatureIDs, []bool) { return nil, nil }
func (p *c11Parent) SetChild(int, *shared.Child)    {}

// C11 (commit-time regime): "the parent's update list contains exactly the
// later child versions up to the next parent version": the exclusive upper end
// computed by nextVersionIndex is one past the last child version committed
// strictly before the next parent (all versions if there is none), with the one
// documented exception of a child not visible at the next parent while the
// next parent is not after the current child version.
//
//@ func oracleC11NextVersionIndex
//@   props C11
//@   oracle
func oracleC11NextVersionIndex(gaps []int, visible []bool, parentAt int, cur int, noNext bool, thresholdMin int) {
	n := len(gaps)
	vAssume(n >= 1 && n <= 8)
	base := time.Date(2015, 1, 1, 0, 0, 0, 0, time.UTC)
	var cl ChildList
	t := base
	for i := 0; i < n; i++ {
		g := gaps[i]
		if g < 0 {
			g = -g
		}
		t = t.Add(time.Duration(g%5+1) * time.Hour) // strictly increasing commit times
		vis := true
		if i < len(visible) {
			vis = visible[i]
		}
		cl = append(cl, &shared.Child{Version: i + 1, VersionIndex: i, Timestamp: t, Committed: t, Visible: vis})
	}
	if parentAt < 0 {
		parentAt = -parentAt
	}
	// the next parent is committed at some hour offset, possibly exactly at a child's commit time
	T := base.Add(time.Duration(parentAt%(5*n+3)) * time.Hour)
	var current *shared.Child
	if cur < 0 {
		cur = -cur
	}
	if cur%(n+1) < n {
		current = cl[cur%(n+1)]
	}
	if thresholdMin < 0 {
		thresholdMin = -thresholdMin
	}
	opts := &Options{Threshold: time.Duration(thresholdMin%90) * time.Minute}
	var next Parent
	if !noNext {
		next = &c11Parent{committed: T, cs: 7}
	}
	got := nextVersionIndex(current, cl, next, opts)
	if noNext {
		vAssert(got == n)
		return
	}
	before := 0
	for _, c := range cl {
		if c.Committed.Before(T) {
			before++
		}
	}
	exception := got == 0 && current != nil && !T.After(current.Committed)
	vAssert(got == before || exception)
}

// C11 (pre-commit-time regime, "same-changeset forward grouping"): a visible
// child version in the window after the query time that belongs to another
// changeset is ignored, so taking it out of the history changes nothing about
// which version FindVisible picks.
//
//@ func oracleC11IgnoredForward
//@   props C11
//@   oracle
//@   covers ChildList).FindVisible
func oracleC11IgnoredForward(gapsSec []int, visible []bool, sameCS []bool, atSec int, epsSec int) {
	n := len(gapsSec)
	vAssume(n >= 1 && n <= 8)
	abs := func(x int) int {
		if x < 0 {
			return -x
		}
		return x
	}
	base := time.Date(2009, 1, 1, 0, 0, 0, 0, time.UTC) // before osm.CommitInfoStart: no commit times
	eps := time.Duration(abs(epsSec)%20+1) * time.Second
	at := base.Add(time.Duration(abs(atSec)%60) * time.Second)
	const cid = osm.ChangesetID(7)
	var cl, kept ChildList
	t := base
	for i := 0; i < n; i++ {
		t = t.Add(time.Duration(abs(gapsSec[i])%12) * time.Second) // non-decreasing timestamps
		c := &shared.Child{Version: i + 1, VersionIndex: i, Timestamp: t, Visible: true, ChangesetID: cid}
		if i < len(visible) {
			c.Visible = visible[i]
		}
		if i < len(sameCS) && !sameCS[i] {
			c.ChangesetID = cid + 1
		}
		cl = append(cl, c)
		ignored := c.Visible && c.Timestamp.After(at) && !c.Timestamp.After(at.Add(eps)) && c.ChangesetID != cid
		if !ignored {
			kept = append(kept, c)
		}
	}
	vAssert(cl.FindVisible(cid, at, eps) == kept.FindVisible(cid, at, eps))
}
