//go:build verif

package core

// Marker functions understood by govc. (Replaced by recording versions
// during replay.)
func vAssert(b bool) {}
func vAssume(b bool) {}
func vCover(b bool)  {}
