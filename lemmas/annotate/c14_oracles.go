//go:build verif

package annotate

import (
	"context"
	"errors"
	"time"

	"github.com/paulmach/osm"
)

type c14DS struct {
	hist map[osm.RelationID]osm.Relations
}

var errC14NotFound = errors.New("not found")

func (d *c14DS) RelationHistory(ctx context.Context, id osm.RelationID) (osm.Relations, error) {
	if h, ok := d.hist[id]; ok {
		return h, nil
	}
	return nil, errC14NotFound
}
func (d *c14DS) NotFound(err error) bool { return err == errC14NotFound }

func c14Abs(x int) int {
	if x < 0 {
		if x == -x {
			return 0
		}
		return -x
	}
	return x
}

// C14: "Iterating a child-first ordering over relation ids emits every
// requested relation that has a history exactly once and never emits an id
// twice or an id without history. When the member-reference graph is acyclic,
// each relation is emitted only after every relation reachable from it through
// relation members of any of its versions; on graphs with cycles or self
// references the iteration still terminates and still emits every requested
// relation."
//
//@ func oracleC14Order
//@   props C14
//@   oracle
func oracleC14Order(members [][]int, members2 [][]int, missing []bool, request []int) {
	n := len(members)
	vAssume(n >= 1)
	if n > 6 {
		n = 6
	}
	ds := &c14DS{hist: map[osm.RelationID]osm.Relations{}}
	adj := make([][]int, n+1)
	has := make([]bool, n+1)
	for i := 1; i <= n; i++ {
		if i-1 < len(missing) && missing[i-1] {
			continue
		}
		has[i] = true
		var versions osm.Relations
		for v, ms := range [][][]int{members, members2} {
			if i-1 >= len(ms) {
				continue
			}
			r := &osm.Relation{ID: osm.RelationID(i), Version: v + 1}
			for k, m := range ms[i-1] {
				ref := c14Abs(m)%n + 1
				if k%3 == 2 {
					r.Members = append(r.Members, osm.Member{Type: osm.TypeWay, Ref: int64(ref)})
					continue
				}
				r.Members = append(r.Members, osm.Member{Type: osm.TypeRelation, Ref: int64(ref)})
				adj[i] = append(adj[i], ref)
			}
			versions = append(versions, r)
		}
		ds.hist[osm.RelationID(i)] = versions
	}
	var ids []osm.RelationID
	for _, r := range request {
		ids = append(ids, osm.RelationID(c14Abs(r)%n+1))
	}
	vAssume(len(ids) > 0)
	// reachability through relations that have a history; acyclicity of that graph
	reach := make([][]bool, n+1)
	for i := range reach {
		reach[i] = make([]bool, n+1)
	}
	for i := 1; i <= n; i++ {
		if !has[i] {
			continue
		}
		for _, j := range adj[i] {
			reach[i][j] = true
		}
	}
	for k := 1; k <= n; k++ {
		if !has[k] {
			continue // nothing is walked through a relation without history
		}
		for i := 1; i <= n; i++ {
			for j := 1; j <= n; j++ {
				if reach[i][k] && reach[k][j] {
					reach[i][j] = true
				}
			}
		}
	}
	acyclic := true
	for i := 1; i <= n; i++ {
		if reach[i][i] {
			acyclic = false
		}
	}
	o := NewChildFirstOrdering(context.Background(), ids, ds)
	var got []int
	done := make(chan struct{})
	go func() {
		for o.Next() {
			got = append(got, int(o.RelationID()))
		}
		close(done)
	}()
	select {
	case <-done:
	case <-time.After(3 * time.Second):
		vAssert(false) // does not terminate
		return
	}
	o.Close()
	vAssert(o.Err() == nil || o.Err() == context.Canceled)
	pos := map[int]int{}
	for k, id := range got {
		_, dup := pos[id]
		vAssert(!dup)          // never twice
		vAssert(has[id])       // never an id without history
		pos[id] = k
	}
	for _, id := range ids {
		if has[int(id)] {
			_, ok := pos[int(id)]
			vAssert(ok) // every requested relation with a history
		}
	}
	if acyclic {
		for id, k := range pos {
			for j := 1; j <= n; j++ {
				if reach[id][j] && has[j] {
					kj, ok := pos[j]
					vAssert(ok && kj < k) // children first
				}
			}
		}
	}
}
