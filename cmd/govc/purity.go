package main

// Syntactic frame inference on the real code: a function "writes only fresh
// memory" if every store goes to an object allocated in the same activation
// (or a non-escaping local) and every callee has the same property (or a
// contract that says `assigns nothing`). Such a function leaves every heap
// location visible to its caller unchanged, so a call to it does not havoc
// the caller's heap even when its contract has no assigns clause.

import (
	"go/types"

	"golang.org/x/tools/go/ssa"
)

type purityInfo struct {
	memo map[*ssa.Function]int // 0 unknown, 1 in progress, 2 pure, 3 impure
}

func (p *Program) writesOnlyFresh(fn *ssa.Function) bool {
	if p.purity == nil {
		p.purity = &purityInfo{memo: map[*ssa.Function]int{}}
	}
	return p.purity.check(p, fn)
}

func (pi *purityInfo) check(p *Program, fn *ssa.Function) bool {
	p.purityMu.Lock()
	defer p.purityMu.Unlock()
	return pi.rec(p, fn)
}

func (pi *purityInfo) rec(p *Program, fn *ssa.Function) bool {
	switch pi.memo[fn] {
	case 2:
		return true
	case 3:
		return false
	case 1:
		return true // recursion: optimistic (coinductive), fine for a frame property
	}
	if c := p.Contracts[fn.String()]; c != nil && c.HasAssigns && len(c.Assigns) == 0 {
		pi.memo[fn] = 2
		return true
	}
	if len(fn.Blocks) == 0 {
		pi.memo[fn] = 3
		return false
	}
	pi.memo[fn] = 1
	ok := true
	for _, b := range fn.Blocks {
		for _, in := range b.Instrs {
			switch x := in.(type) {
			case *ssa.Store:
				if !rootIsFresh(x.Addr) {
					ok = false
				}
			case *ssa.MapUpdate:
				if _, isFresh := x.Map.(*ssa.MakeMap); !isFresh {
					ok = false
				}
			case *ssa.Go, *ssa.Defer, *ssa.Send, *ssa.Select:
				ok = false
			case ssa.CallInstruction:
				com := x.Common()
				if bi, isB := com.Value.(*ssa.Builtin); isB {
					switch bi.Name() {
					case "append":
						// may write into spare capacity of the argument's array
						if !valueIsFreshSlice(com.Args[0]) {
							ok = false
						}
					case "copy", "delete", "close":
						ok = false
					}
					continue
				}
				callee := com.StaticCallee()
				if callee == nil {
					ok = false
					continue
				}
				if callee.Name() == "vAssert" || callee.Name() == "vAssume" || callee.Name() == "vCover" {
					continue
				}
				if !pi.rec(p, callee) {
					ok = false
				}
			}
			if !ok {
				break
			}
		}
		if !ok {
			break
		}
	}
	if ok {
		pi.memo[fn] = 2
	} else {
		pi.memo[fn] = 3
	}
	return ok
}

func rootIsFresh(addr ssa.Value) bool {
	switch a := addr.(type) {
	case *ssa.Alloc:
		return true
	case *ssa.FieldAddr:
		return rootIsFresh(a.X)
	case *ssa.IndexAddr:
		if _, isSlice := a.X.Type().Underlying().(*types.Slice); isSlice {
			return valueIsFreshSlice(a.X)
		}
		return rootIsFresh(a.X)
	}
	return false
}

func valueIsFreshSlice(v ssa.Value) bool {
	switch s := v.(type) {
	case *ssa.MakeSlice:
		return true
	case *ssa.Slice:
		if _, ok := s.X.(*ssa.Alloc); ok {
			return true
		}
		return valueIsFreshSlice(s.X)
	case *ssa.Const:
		return s.Value == nil // nil slice: append allocates
	}
	return false
}
