package main

// Contract expression language: Go-like infix expressions extended with
// ==>, <==>, forall/exists, old(), result, len(), spec-function calls.
// This file holds the lexer, the Pratt parser and the AST.

import (
	"fmt"
	"strings"
	"unicode"
)

type tokKind int

const (
	tEOF tokKind = iota
	tIdent
	tInt
	tFloat
	tString
	tOp
)

type lexTok struct {
	kind tokKind
	s    string
	pos  int
}

func lexExpr(src string) ([]lexTok, error) {
	var toks []lexTok
	i := 0
	n := len(src)
	ops := []string{"<==>", "==>", "...", "::", "&&", "||", "==", "!=", "<=", ">=", "<<", ">>", "&^", "..",
		"+", "-", "*", "/", "%", "&", "|", "^", "<", ">", "!", "(", ")", "[", "]", ",", ".", ":", "#", "{", "}"}
	for i < n {
		c := src[i]
		if c == ' ' || c == '\t' || c == '\n' || c == '\r' {
			i++
			continue
		}
		if c == '"' {
			j := i + 1
			var sb strings.Builder
			for j < n && src[j] != '"' {
				if src[j] == '\\' && j+1 < n {
					switch src[j+1] {
					case 'n':
						sb.WriteByte('\n')
					case 't':
						sb.WriteByte('\t')
					case '\\':
						sb.WriteByte('\\')
					case '"':
						sb.WriteByte('"')
					default:
						sb.WriteByte(src[j+1])
					}
					j += 2
					continue
				}
				sb.WriteByte(src[j])
				j++
			}
			if j >= n {
				return nil, fmt.Errorf("unterminated string at %d", i)
			}
			toks = append(toks, lexTok{tString, sb.String(), i})
			i = j + 1
			continue
		}
		if c >= '0' && c <= '9' {
			j := i
			isFloat := false
			if c == '0' && j+1 < n && (src[j+1] == 'x' || src[j+1] == 'X') {
				j += 2
				for j < n && (isHex(src[j]) || src[j] == '_') {
					j++
				}
			} else {
				for j < n && ((src[j] >= '0' && src[j] <= '9') || src[j] == '_') {
					j++
				}
				if j+1 < n && src[j] == '.' && src[j+1] >= '0' && src[j+1] <= '9' {
					isFloat = true
					j++
					for j < n && src[j] >= '0' && src[j] <= '9' {
						j++
					}
				}
				if j < n && (src[j] == 'e' || src[j] == 'E') {
					k := j + 1
					if k < n && (src[k] == '-' || src[k] == '+') {
						k++
					}
					if k < n && src[k] >= '0' && src[k] <= '9' {
						isFloat = true
						for k < n && src[k] >= '0' && src[k] <= '9' {
							k++
						}
						j = k
					}
				}
			}
			k := tInt
			if isFloat {
				k = tFloat
			}
			toks = append(toks, lexTok{k, strings.ReplaceAll(src[i:j], "_", ""), i})
			i = j
			continue
		}
		if c == '_' || c == '$' || unicode.IsLetter(rune(c)) {
			j := i
			for j < n && (src[j] == '_' || src[j] == '$' || unicode.IsLetter(rune(src[j])) || unicode.IsDigit(rune(src[j]))) {
				j++
			}
			toks = append(toks, lexTok{tIdent, src[i:j], i})
			i = j
			continue
		}
		matched := false
		for _, op := range ops {
			if strings.HasPrefix(src[i:], op) {
				toks = append(toks, lexTok{tOp, op, i})
				i += len(op)
				matched = true
				break
			}
		}
		if !matched {
			return nil, fmt.Errorf("unexpected character %q at %d in %q", c, i, src)
		}
	}
	toks = append(toks, lexTok{tEOF, "", n})
	return toks, nil
}

func isHex(c byte) bool {
	return (c >= '0' && c <= '9') || (c >= 'a' && c <= 'f') || (c >= 'A' && c <= 'F')
}

// AST

type Expr interface{ String() string }

type (
	EIdent  struct{ Name string }
	EInt    struct{ V string }
	EFloat  struct{ V string }
	EString struct{ V string }
	EUnary  struct {
		Op string
		X  Expr
	}
	EBinary struct {
		Op   string
		L, R Expr
	}
	ECall struct {
		Fn   string
		Args []Expr
	}
	EField struct {
		X    Expr
		Name string
	}
	EIndex struct {
		X, I Expr
	}
	ESliceAll struct{ X Expr } // s[..]
	ESlice    struct {
		X      Expr
		Lo, Hi Expr // may be nil
	}
	EQuant struct {
		Forall   bool
		Vars     []QVar
		Body     Expr
		Triggers [][]Expr // alternatives of multi-patterns
	}
	EOld  struct{ X Expr }
	ECond struct{ C, T, F Expr } // ite(c,t,f)
)

type QVar struct{ Name, Type string }

func (e *EIdent) String() string  { return e.Name }
func (e *EInt) String() string    { return e.V }
func (e *EFloat) String() string  { return e.V }
func (e *EString) String() string { return fmt.Sprintf("%q", e.V) }
func (e *EUnary) String() string  { return e.Op + e.X.String() }
func (e *EBinary) String() string { return "(" + e.L.String() + " " + e.Op + " " + e.R.String() + ")" }
func (e *ECall) String() string {
	var a []string
	for _, x := range e.Args {
		a = append(a, x.String())
	}
	return e.Fn + "(" + strings.Join(a, ", ") + ")"
}
func (e *EField) String() string    { return e.X.String() + "." + e.Name }
func (e *EIndex) String() string    { return e.X.String() + "[" + e.I.String() + "]" }
func (e *ESliceAll) String() string { return e.X.String() + "[..]" }
func (e *ESlice) String() string {
	lo, hi := "", ""
	if e.Lo != nil {
		lo = e.Lo.String()
	}
	if e.Hi != nil {
		hi = e.Hi.String()
	}
	return e.X.String() + "[" + lo + ":" + hi + "]"
}
func (e *EQuant) String() string {
	q := "exists"
	if e.Forall {
		q = "forall"
	}
	var vs []string
	for _, v := range e.Vars {
		vs = append(vs, v.Name+" "+v.Type)
	}
	return q + " " + strings.Join(vs, ", ") + " :: " + e.Body.String()
}
func (e *EOld) String() string  { return "old(" + e.X.String() + ")" }
func (e *ECond) String() string { return "ite(" + e.C.String() + "," + e.T.String() + "," + e.F.String() + ")" }

type parser struct {
	toks []lexTok
	p    int
	src  string
}

func parseExpr(src string) (e Expr, err error) {
	toks, err := lexExpr(src)
	if err != nil {
		return nil, err
	}
	ps := &parser{toks: toks, src: src}
	defer func() {
		if r := recover(); r != nil {
			if pe, ok := r.(parseErr); ok {
				err = fmt.Errorf("%s in %q", string(pe), src)
				return
			}
			panic(r)
		}
	}()
	e = ps.expr(0)
	if ps.peek().kind != tEOF {
		ps.fail("unexpected %q", ps.peek().s)
	}
	return e, nil
}

type parseErr string

func (ps *parser) fail(f string, a ...interface{}) {
	panic(parseErr(fmt.Sprintf(f, a...) + fmt.Sprintf(" at offset %d", ps.peek().pos)))
}
func (ps *parser) peek() lexTok { return ps.toks[ps.p] }
func (ps *parser) next() lexTok { t := ps.toks[ps.p]; ps.p++; return t }
func (ps *parser) isOp(s string) bool {
	t := ps.peek()
	return t.kind == tOp && t.s == s
}
func (ps *parser) expect(s string) {
	if !ps.isOp(s) {
		ps.fail("expected %q, got %q", s, ps.peek().s)
	}
	ps.p++
}

// binary precedence (higher binds tighter)
var binPrec = map[string]int{
	"<==>": 1, "==>": 2, "||": 3, "&&": 4,
	"==": 5, "!=": 5, "<": 5, "<=": 5, ">": 5, ">=": 5,
	"+": 6, "-": 6, "|": 6, "^": 6,
	"*": 7, "/": 7, "%": 7, "<<": 7, ">>": 7, "&": 7, "&^": 7,
}

func (ps *parser) expr(minPrec int) Expr {
	t := ps.peek()
	if t.kind == tIdent && (t.s == "forall" || t.s == "exists") {
		ps.next()
		q := &EQuant{Forall: t.s == "forall"}
		for {
			var names []string
			n := ps.next()
			if n.kind != tIdent {
				ps.fail("expected bound variable")
			}
			names = append(names, n.s)
			// "x, y int" or "x int, y ref"
			for ps.isOp(",") {
				ps.next()
				n2 := ps.next()
				if n2.kind != tIdent {
					ps.fail("expected bound variable")
				}
				names = append(names, n2.s)
				if ps.peek().kind == tIdent {
					break
				}
			}
			ty := ps.typeName()
			for _, nm := range names {
				q.Vars = append(q.Vars, QVar{nm, ty})
			}
			if ps.isOp(",") {
				ps.next()
				continue
			}
			break
		}
		for ps.isOp("{") {
			ps.next()
			var pat []Expr
			for {
				pat = append(pat, ps.expr(0))
				if ps.isOp(",") {
					ps.next()
					continue
				}
				break
			}
			ps.expect("}")
			q.Triggers = append(q.Triggers, pat)
		}
		ps.expect("::")
		q.Body = ps.expr(0)
		return q
	}
	lhs := ps.unary()
	for {
		t := ps.peek()
		if t.kind != tOp {
			break
		}
		prec, ok := binPrec[t.s]
		if !ok || prec < minPrec {
			break
		}
		ps.next()
		var rhs Expr
		if t.s == "==>" || t.s == "<==>" {
			rhs = ps.expr(prec) // right assoc
		} else {
			rhs = ps.expr(prec + 1)
		}
		lhs = &EBinary{t.s, lhs, rhs}
	}
	return lhs
}

// typeName parses a quantifier variable type: ident, ident.ident, *ident, []ident
func (ps *parser) typeName() string {
	var sb strings.Builder
	for ps.isOp("*") || ps.isOp("[") {
		if ps.isOp("*") {
			ps.next()
			sb.WriteString("*")
		} else {
			ps.next()
			ps.expect("]")
			sb.WriteString("[]")
		}
	}
	n := ps.next()
	if n.kind != tIdent {
		ps.fail("expected type name")
	}
	sb.WriteString(n.s)
	if ps.isOp(".") {
		ps.next()
		m := ps.next()
		sb.WriteString("." + m.s)
	}
	return sb.String()
}

func (ps *parser) unary() Expr {
	t := ps.peek()
	if t.kind == tOp && (t.s == "!" || t.s == "-" || t.s == "^") {
		ps.next()
		return &EUnary{t.s, ps.unary()}
	}
	if t.kind == tOp && t.s == "*" {
		ps.next()
		return &EUnary{"deref", ps.unary()}
	}
	if t.kind == tOp && t.s == "&" {
		// &name: the address of a captured or address-taken local variable (bound by the translator)
		ps.next()
		n := ps.next()
		return &EIdent{Name: "&" + n.s}
	}
	return ps.postfix(ps.primary())
}

func (ps *parser) postfix(x Expr) Expr {
	for {
		switch {
		case ps.isOp("."):
			ps.next()
			n := ps.next()
			if n.kind != tIdent {
				ps.fail("expected field name")
			}
			// method-like call on value: x.f(args) -> call "f" with x as first arg prefixed "."
			if ps.isOp("(") {
				args := ps.args()
				x = &ECall{"." + n.s, append([]Expr{x}, args...)}
			} else {
				x = &EField{x, n.s}
			}
		case ps.isOp("["):
			ps.next()
			if ps.isOp("..") {
				ps.next()
				ps.expect("]")
				x = &ESliceAll{x}
				continue
			}
			var lo, hi Expr
			if !ps.isOp(":") {
				lo = ps.expr(0)
			}
			if ps.isOp(":") {
				ps.next()
				if !ps.isOp("]") {
					hi = ps.expr(0)
				}
				ps.expect("]")
				x = &ESlice{x, lo, hi}
			} else {
				ps.expect("]")
				x = &EIndex{x, lo}
			}
		default:
			return x
		}
	}
}

func (ps *parser) args() []Expr {
	ps.expect("(")
	var a []Expr
	for !ps.isOp(")") {
		a = append(a, ps.expr(0))
		if ps.isOp(",") {
			ps.next()
		} else {
			break
		}
	}
	ps.expect(")")
	return a
}

func (ps *parser) primary() Expr {
	t := ps.next()
	switch t.kind {
	case tInt:
		return &EInt{t.s}
	case tFloat:
		return &EFloat{t.s}
	case tString:
		return &EString{t.s}
	case tIdent:
		name := t.s
		// qualified name pkg.Name is parsed as field access and resolved later
		if ps.isOp("(") {
			args := ps.args()
			if name == "old" {
				if len(args) != 1 {
					ps.fail("old takes one argument")
				}
				return &EOld{args[0]}
			}
			if name == "ite" {
				if len(args) != 3 {
					ps.fail("ite takes three arguments")
				}
				return &ECond{args[0], args[1], args[2]}
			}
			return &ECall{name, args}
		}
		return &EIdent{name}
	case tOp:
		if t.s == "(" {
			e := ps.expr(0)
			ps.expect(")")
			return e
		}
		if t.s == "#" {
			n := ps.next()
			return &EIdent{"#" + n.s}
		}
	}
	ps.p--
	ps.fail("unexpected token %q", t.s)
	return nil
}
