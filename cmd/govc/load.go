package main

import (
	"fmt"
	"go/types"
	"os"
	"path/filepath"
	"regexp"
	"sort"
	"strings"
	"sync"

	"golang.org/x/tools/go/packages"
	"golang.org/x/tools/go/ssa"
	"golang.org/x/tools/go/ssa/ssautil"
)

const modPath = "github.com/paulmach/osm"

type Program struct {
	RepoDir  string
	VerifDir string
	Pkgs     []*packages.Package
	SSA      *ssa.Program
	SSAPkgs  map[string]*ssa.Package // by import path
	// contracts by absolute function key (fn.String())
	Contracts map[string]*Contract
	// all SSA functions (incl. anonymous) by String()
	Funcs map[string]*ssa.Function
	Spec  *SpecDB
	// files that came from the lemma overlay (abs path in repo -> source path)
	OverlayFiles map[string]string
	LoadErrors   []string
	DroppedLemmas map[string]string // lemma/oracle files of /verif left out because they no longer compile: file -> error
	purity       *purityInfo
	purityMu     sync.Mutex
	byName       map[string]*types.Package
}

// loadProgram loads the packages named by pkgRel (relative import paths under
// the module, "" or "." for the root package) with the verif tag and the
// lemma overlay, builds SSA and reads all contract files.
func loadProgram(repoDir, verifDir string, pkgRel []string) (*Program, error) {
	p := &Program{RepoDir: repoDir, VerifDir: verifDir, Contracts: map[string]*Contract{}, Funcs: map[string]*ssa.Function{},
		SSAPkgs: map[string]*ssa.Package{}, OverlayFiles: map[string]string{}}
	overlay := map[string][]byte{}
	var patterns []string
	for _, rel := range pkgRel {
		rel = strings.Trim(rel, "/")
		if rel == "." {
			rel = ""
		}
		ip := modPath
		if rel != "" {
			ip += "/" + rel
		}
		patterns = append(patterns, ip)
		ldir := filepath.Join(verifDir, "lemmas", relOrRoot(rel))
		ents, _ := os.ReadDir(ldir)
		for _, e := range ents {
			if e.IsDir() || !strings.HasSuffix(e.Name(), ".go") {
				continue
			}
			src, err := os.ReadFile(filepath.Join(ldir, e.Name()))
			if err != nil {
				return nil, err
			}
			dst := filepath.Join(repoDir, rel, "zz_verif_"+e.Name())
			overlay[dst] = src
			p.OverlayFiles[dst] = filepath.Join(ldir, e.Name())
		}
	}
	cfg := &packages.Config{
		Mode:       packages.NeedName | packages.NeedFiles | packages.NeedCompiledGoFiles | packages.NeedImports | packages.NeedDeps | packages.NeedTypes | packages.NeedTypesSizes | packages.NeedSyntax | packages.NeedTypesInfo | packages.NeedModule,
		Dir:        repoDir,
		BuildFlags: []string{"-tags=verif", "-mod=mod"},
		Env:        append(os.Environ(), "GOFLAGS=-mod=mod", "GOPROXY=off", "GOSUMDB=off", "GOTOOLCHAIN=local", "CGO_ENABLED=0"),
		Overlay:    overlay,
	}
	var pkgs []*packages.Package
	for attempt := 0; ; attempt++ {
		var err error
		pkgs, err = packages.Load(cfg, patterns...)
		if err != nil {
			return nil, err
		}
		p.LoadErrors = nil
		for _, pk := range pkgs {
			for _, e := range pk.Errors {
				p.LoadErrors = append(p.LoadErrors, e.Error())
			}
		}
		if len(p.LoadErrors) == 0 {
			break
		}
		// a lemma or oracle file of /verif that no longer compiles against the tree (e.g. it names a
		// function that was removed) must not take the whole check down: it is left out, reported as a
		// violation of its own by the check, and everything else is checked as usual
		dropped := false
		if attempt < 8 {
			for dst := range overlay {
				for _, e := range p.LoadErrors {
					if strings.Contains(e, dst) {
						if p.DroppedLemmas == nil {
							p.DroppedLemmas = map[string]string{}
						}
						if _, done := p.DroppedLemmas[p.OverlayFiles[dst]]; !done {
							p.DroppedLemmas[p.OverlayFiles[dst]] = e
						}
						delete(overlay, dst)
						delete(p.OverlayFiles, dst)
						dropped = true
						break
					}
				}
			}
		}
		if !dropped {
			return nil, fmt.Errorf("package load errors: %s", strings.Join(p.LoadErrors, "; "))
		}
	}
	p.Pkgs = pkgs
	prog, spkgs := ssautil.AllPackages(pkgs, ssa.GlobalDebug|ssa.BuildSerially)
	p.SSA = prog
	for i, sp := range spkgs {
		if sp == nil {
			return nil, fmt.Errorf("no SSA package for %s", pkgs[i].PkgPath)
		}
		sp.Build()
		p.SSAPkgs[pkgs[i].PkgPath] = sp
	}
	// module-internal dependencies: build bodies too (frame inference, contracts of callees)
	var modPkgs []*packages.Package
	seenPk := map[string]bool{}
	var walkPk func(pk *packages.Package)
	walkPk = func(pk *packages.Package) {
		if seenPk[pk.PkgPath] {
			return
		}
		seenPk[pk.PkgPath] = true
		if pk.PkgPath == modPath || strings.HasPrefix(pk.PkgPath, modPath+"/") {
			modPkgs = append(modPkgs, pk)
		}
		for _, im := range pk.Imports {
			walkPk(im)
		}
	}
	for _, pk := range pkgs {
		walkPk(pk)
	}
	for _, pk := range modPkgs {
		if _, ok := p.SSAPkgs[pk.PkgPath]; ok {
			continue
		}
		if sp := prog.Package(pk.Types); sp != nil {
			sp.Build()
			p.SSAPkgs[pk.PkgPath] = sp
		}
	}
	for fn := range ssautil.AllFunctions(prog) {
		if fn.Pkg != nil {
			if _, ok := p.SSAPkgs[fn.Pkg.Pkg.Path()]; ok {
				p.Funcs[fn.String()] = fn
			}
		}
	}
	// contracts: every compiled Go file of the module's packages in the import closure that has //@ lines
	for _, pk := range modPkgs {
		for _, f := range pk.CompiledGoFiles {
			var cs []*Contract
			var err error
			if src, ok := overlay[f]; ok {
				cs, err = parseContractText(string(src), p.OverlayFiles[f], pk.PkgPath)
			} else {
				if !fileHasContracts(f) {
					continue
				}
				cs, err = parseContractFile(f, pk.PkgPath)
			}
			if err != nil {
				return nil, err
			}
			for _, c := range cs {
				key := p.absKey(c)
				if old, dup := p.Contracts[key]; dup {
					return nil, fmt.Errorf("duplicate contract for %s (%s:%d and %s:%d)", key, old.File, old.Line, c.File, c.Line)
				}
				p.Contracts[key] = c
			}
		}
	}
	// assumed contracts of dependencies
	specDir := filepath.Join(verifDir, "spec")
	ents, _ := os.ReadDir(specDir)
	for _, e := range ents {
		if strings.HasSuffix(e.Name(), ".contracts") {
			cs, err := parseContractFile(filepath.Join(specDir, e.Name()), "")
			if err != nil {
				return nil, err
			}
			for _, c := range cs {
				c.Trusted = true
				if _, dup := p.Contracts[c.Key]; dup {
					return nil, fmt.Errorf("duplicate contract for %s", c.Key)
				}
				p.Contracts[c.Key] = c
			}
		}
	}
	return p, nil
}

func relOrRoot(rel string) string {
	if rel == "" {
		return "root"
	}
	return rel
}

func fileHasContracts(path string) bool {
	b, err := os.ReadFile(path)
	if err != nil {
		return false
	}
	return strings.Contains(string(b), "//@ func")
}

var recvRe = regexp.MustCompile(`^\((\*?)([A-Za-z_][A-Za-z0-9_]*)\)\.(.*)$`)
var recvBareRe = regexp.MustCompile(`^([A-Za-z_][A-Za-z0-9_]*)\.([A-Za-z_][A-Za-z0-9_$]*)$`)

// absKey converts a package-relative key into the ssa Function.String() form.
func (p *Program) absKey(c *Contract) string {
	k := c.Key
	if c.PkgPath == "" {
		return k
	}
	for _, pre := range []string{"funcfield:", "functype:", "funcparam:"} {
		if strings.HasPrefix(k, pre) {
			rest := strings.TrimPrefix(k, pre)
			if strings.Contains(rest, "/") {
				return k
			}
			return pre + c.PkgPath + "." + rest
		}
	}
	if m := recvRe.FindStringSubmatch(k); m != nil {
		return "(" + m[1] + c.PkgPath + "." + m[2] + ")." + m[3]
	}
	if m := recvBareRe.FindStringSubmatch(k); m != nil {
		// Type.Method with value receiver -- only if Type is a type in the package
		if sp := p.SSAPkgs[c.PkgPath]; sp != nil {
			if _, ok := sp.Members[m[1]].(*ssa.Type); ok {
				return "(" + c.PkgPath + "." + m[1] + ")." + m[2]
			}
		}
	}
	if strings.Contains(k, "/") {
		// already absolute: an assumed contract for a function of another package
		return k
	}
	return c.PkgPath + "." + k
}

func (p *Program) contractFor(fn *ssa.Function) *Contract {
	if fn == nil {
		return nil
	}
	return p.Contracts[fn.String()]
}

// funcsWithProp returns the functions (with bodies, in loaded packages) whose
// contract is tagged with the property, sorted by key.
func (p *Program) funcsWithProp(prop string) []*ssa.Function {
	var out []*ssa.Function
	for key, c := range p.Contracts {
		if c.Trusted || c.Oracle {
			continue
		}
		has := false
		for _, pr := range c.Props {
			if pr == prop {
				has = true
			}
		}
		if !has {
			continue
		}
		if fn := p.Funcs[key]; fn != nil {
			out = append(out, fn)
		}
	}
	sort.Slice(out, func(i, j int) bool { return out[i].String() < out[j].String() })
	return out
}

// missingTargets lists contracts tagged with prop whose function is absent.
func (p *Program) missingTargets(prop string) []string {
	var out []string
	for key, c := range p.Contracts {
		if c.Trusted || c.Oracle {
			continue
		}
		if strings.HasPrefix(key, "funcfield:") || strings.HasPrefix(key, "functype:") || strings.HasPrefix(key, "funcparam:") {
			continue
		}
		for _, pr := range c.Props {
			if pr == prop {
				if fn := p.Funcs[key]; fn == nil || len(fn.Blocks) == 0 {
					out = append(out, key)
				}
			}
		}
	}
	sort.Strings(out)
	return out
}

func lookupType(pkg *types.Package, name string) types.Type {
	if pkg == nil {
		return nil
	}
	if o := pkg.Scope().Lookup(name); o != nil {
		if tn, ok := o.(*types.TypeName); ok {
			return tn.Type()
		}
	}
	return nil
}

// pkgByName finds a package of the loaded program by its name (first match in import-graph order).
func (p *Program) pkgByName(name string) *types.Package {
	p.purityMu.Lock()
	defer p.purityMu.Unlock()
	if p.byName == nil {
		p.byName = map[string]*types.Package{}
		seen := map[string]bool{}
		var walk func(pk *packages.Package)
		walk = func(pk *packages.Package) {
			if seen[pk.PkgPath] {
				return
			}
			seen[pk.PkgPath] = true
			if pk.Types != nil {
				if old, dup := p.byName[pk.Types.Name()]; !dup || len(pk.Types.Path()) < len(old.Path()) {
					p.byName[pk.Types.Name()] = pk.Types
				}
				// "internal_osmpbf" names the package whose path ends in internal/osmpbf (for packages
				// whose plain name is shadowed by a shorter path)
				parts := strings.Split(pk.Types.Path(), "/")
				if len(parts) >= 2 {
					alias := parts[len(parts)-2] + "_" + parts[len(parts)-1]
					if old, dup := p.byName[alias]; !dup || len(pk.Types.Path()) < len(old.Path()) {
						p.byName[alias] = pk.Types
					}
				}
			}
			for _, im := range pk.Imports {
				walk(im)
			}
		}
		for _, pk := range p.Pkgs {
			walk(pk)
		}
	}
	return p.byName[name]
}
