package main

import "os"

func readFile(p string) ([]byte, error) { return os.ReadFile(p) }
