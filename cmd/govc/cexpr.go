package main

// Evaluation of contract expressions to SMT terms.

import (
	"strconv"
	"fmt"
	"regexp"
	"go/constant"
	"go/types"
	"math/big"
	"strings"

	"golang.org/x/tools/go/ssa"
)

type State struct {
	heaps  map[string]string // heap name -> SMT symbol of current version
	locals map[string]string // local alloc key -> symbol
	alloc  string
}

func (s *State) clone() *State {
	n := &State{heaps: map[string]string{}, locals: map[string]string{}, alloc: s.alloc}
	for k, v := range s.heaps {
		n.heaps[k] = v
	}
	for k, v := range s.locals {
		n.locals[k] = v
	}
	return n
}

func (w *World) heapSym(st *State, name string) string {
	if s, ok := st.heaps[name]; ok {
		return s
	}
	srt, ok := w.heapSorts[name]
	if !ok {
		panic("heap without sort: " + name)
	}
	first := !w.constSet[name+"@0"]
	sym := w.declConstRaw(name+"@0", srt)
	if first {
		w.entryClosure(name, sym)
	}
	return sym
}

// entryClosure states that the entry heap is closed: every reference stored
// in it was allocated before the function started (<= alloc@0).
func (w *World) entryClosure(name, sym string) {
	vs := w.heapValSort[name]
	if vs == nil {
		return
	}
	a0 := q("alloc@0")
	bound := func(t string, s *Sort) []string {
		var out []string
		var rec func(t string, s *Sort, depth int)
		rec = func(t string, s *Sort, depth int) {
			switch s.Kind {
			case KRef, KMap, KChan:
				out = append(out, fmt.Sprintf("(<= 0 %s)", t), fmt.Sprintf("(<= %s %s)", t, a0))
			case KSlice:
				out = append(out, fmt.Sprintf("(<= 0 (s-arr %s))", t), fmt.Sprintf("(<= (s-arr %s) %s)", t, a0))
				// type invariant of slices stored in the entry heap
				z := w.ilit(0)
				out = append(out, w.ile(z, "(s-off "+t+")"), w.ile(z, "(s-len "+t+")"), w.ile("(s-len "+t+")", "(s-cap "+t+")"))
			case KIface:
				// an interface holding a pointer holds an allocated one
				out = append(out, fmt.Sprintf("(=> (is-ptr-dyn (i-dyn %s)) (and (<= 0 (i-val %s)) (<= (i-val %s) %s)))", t, t, t, a0))
			case KStruct:
				if depth < 2 {
					for _, fi := range w.fieldsOf(s) {
						rec(fmt.Sprintf("(%s %s)", q(fi.Acc), t), fi.Sort, depth+1)
					}
				}
			}
		}
		rec(t, s, 0)
		return out
	}
	save := w.curBlock
	w.curBlock = -1
	defer func() { w.curBlock = save }()
	switch {
	case strings.HasPrefix(name, "E_"):
		t := fmt.Sprintf("(select (select %s r!c) j!c)", sym)
		if bs := bound(t, vs); len(bs) > 0 {
			// only for objects that exist at entry: what a callee later allocates at a fresh address is
			// described by that callee's postcondition, not by the entry state (an unrestricted closure
			// contradicts `ensures fresh(result.f)` of an allocating callee with `assigns nothing`)
			w.addFact(fmt.Sprintf("(forall ((r!c Int) (j!c %s)) (! (=> (<= r!c %s) (and %s)) :pattern (%s)))", w.idxSortName(), a0, strings.Join(bs, " "), t))
		}
	case strings.HasPrefix(name, "H_"), strings.HasPrefix(name, "C_"):
		t := fmt.Sprintf("(select %s r!c)", sym)
		if bs := bound(t, vs); len(bs) > 0 {
			w.addFact(fmt.Sprintf("(forall ((r!c Int)) (! (=> (<= r!c %s) (and %s)) :pattern (%s)))", a0, strings.Join(bs, " "), t))
		}
	case strings.HasPrefix(name, "G_"):
		if bs := bound(sym, vs); len(bs) > 0 {
			w.addFact("(and " + strings.Join(bs, " ") + ")")
		}
	}
}

type evalCtx struct {
	w     *World
	pkg   *types.Package // for resolving identifiers and types
	env   map[string]Term
	st    *State
	old   *State
	bound []map[string]Term
	lets  map[string]Expr
	cells map[string]*Loc // names bound to memory cells (captured variables of closures): read in the current state
	opaque map[string]*Loc // parameters that are addresses of a struct-valued field (opaque pointers): name -> location
	headSt  *State          // iterpost only: state and names at the loop head of this iteration (athead(e))
	headEnv map[string]Term
	ft    *funcTrans
}

func (c *evalCtx) readCell(l *Loc) Term {
	if c.ft == nil {
		c.fail("cell-bound name outside a function context")
	}
	return c.ft.readLoc(c.st, l)
}

func (c *evalCtx) withState(st *State) *evalCtx {
	n := *c
	n.st = st
	return &n
}

func (c *evalCtx) fail(f string, a ...interface{}) {
	panic(unsupportedErr("contract expression: " + fmt.Sprintf(f, a...)))
}

func (c *evalCtx) lookup(name string) (Term, bool) {
	for i := len(c.bound) - 1; i >= 0; i-- {
		if t, ok := c.bound[i][name]; ok {
			return t, true
		}
	}
	t, ok := c.env[name]
	return t, ok
}

func (c *evalCtx) quantSort(ty string) *Sort {
	w := c.w
	switch ty {
	case "int", "int64":
		return w.intSort(64, true, types.Typ[types.Int64])
	case "uint64":
		return w.intSort(64, false, types.Typ[types.Uint64])
	case "int32":
		return w.intSort(32, true, types.Typ[types.Int32])
	case "Int":
		return &Sort{Name: "Int", Kind: KOther}
	case "ref":
		return &Sort{Name: "Int", Kind: KRef}
	case "bool":
		return sortBool
	case "string":
		return sortString
	case "real", "float64":
		return sortReal
	}
	gt := c.resolveType(ty)
	if gt == nil {
		c.fail("unknown type %q", ty)
	}
	return w.sortOf(gt)
}

func (c *evalCtx) resolveType(ty string) types.Type {
	if strings.HasPrefix(ty, "*") {
		t := c.resolveType(ty[1:])
		if t == nil {
			return nil
		}
		return types.NewPointer(t)
	}
	if strings.HasPrefix(ty, "[]") {
		t := c.resolveType(ty[2:])
		if t == nil {
			return nil
		}
		return types.NewSlice(t)
	}
	if i := strings.Index(ty, "."); i >= 0 {
		pk := c.findPkg(ty[:i])
		if pk == nil {
			return nil
		}
		return lookupType(pk, ty[i+1:])
	}
	if t := lookupType(c.pkg, ty); t != nil {
		return t
	}
	if o := types.Universe.Lookup(ty); o != nil {
		if tn, ok := o.(*types.TypeName); ok {
			return tn.Type()
		}
	}
	return nil
}

func (c *evalCtx) findPkg(name string) *types.Package {
	if c.pkg == nil {
		return c.w.P.pkgByName(name)
	}
	if r := c.findPkgFrom(name); r != nil {
		return r
	}
	return c.w.P.pkgByName(name)
}

func (c *evalCtx) findPkgFrom(name string) *types.Package {
	if c.pkg.Name() == name {
		return c.pkg
	}
	seen := map[*types.Package]bool{}
	var walk func(p *types.Package) *types.Package
	walk = func(p *types.Package) *types.Package {
		if seen[p] {
			return nil
		}
		seen[p] = true
		for _, im := range p.Imports() {
			if im.Name() == name {
				return im
			}
		}
		for _, im := range p.Imports() {
			if r := walk(im); r != nil {
				return r
			}
		}
		return nil
	}
	return walk(c.pkg)
}

func (c *evalCtx) eval(e Expr) Term {
	w := c.w
	switch x := e.(type) {
	case *EInt:
		v, ok := new(big.Int).SetString(x.V, 0)
		if !ok {
			c.fail("bad int literal %s", x.V)
		}
		return Term{v.String(), sortUntypedInt}
	case *EFloat:
		r, ok := new(big.Rat).SetString(x.V)
		if !ok {
			c.fail("bad float literal %s", x.V)
		}
		return Term{ratLit(r), sortReal}
	case *EString:
		return Term{strLit(x.V), sortString}
	case *EIdent:
		return c.ident(x.Name)
	case *EOld:
		if c.old == nil {
			c.fail("old() not available here")
		}
		n := *c
		n.st = c.old
		return n.eval(x.X)
	case *ECond:
		cond := c.evalBool(x.C)
		a, b := c.eval(x.T), c.eval(x.F)
		a, b = c.unify(a, b)
		a, b = c.concrete(a), c.concrete(b)
		return Term{fmt.Sprintf("(ite %s %s %s)", cond.S, a.S, b.S), a.Sort}
	case *EUnary:
		switch x.Op {
		case "!":
			t := c.evalBool(x.X)
			return Term{"(not " + t.S + ")", sortBool}
		case "-":
			t := c.eval(x.X)
			if t.Sort.Kind == KUntypedInt {
				v, _ := new(big.Int).SetString(t.S, 10)
				return Term{new(big.Int).Neg(v).String(), sortUntypedInt}
			}
			if w.BV && t.Sort.Kind == KInt {
				return Term{"(bvneg " + t.S + ")", t.Sort}
			}
			return Term{"(- " + t.S + ")", t.Sort}
		case "^":
			t := c.eval(x.X)
			if w.BV && t.Sort.Kind == KInt {
				return Term{"(bvnot " + t.S + ")", t.Sort}
			}
			c.fail("^ outside bv mode")
		}
	case *EBinary:
		return c.binary(x)
	case *EQuant:
		scope := map[string]Term{}
		var decl []string
		for _, v := range x.Vars {
			s := c.quantSort(v.Type)
			scope[v.Name] = Term{q("q_" + v.Name), s}
			decl = append(decl, fmt.Sprintf("(%s %s)", q("q_"+v.Name), s.Name))
		}
		n := *c
		n.bound = append(append([]map[string]Term{}, c.bound...), scope)
		body := n.evalBool(x.Body)
		kw := "exists"
		if x.Forall {
			kw = "forall"
		}
		bs := body.S
		if len(x.Triggers) == 0 {
			// default triggers: every element access x[v] / x[sidx(o, v)] on a bound variable,
			// each as an alternative single pattern (covering all bound variables)
			vars := map[string]bool{}
			for _, v := range x.Vars {
				vars[v.Name] = true
			}
			seen := map[string]bool{}
			var pats []string
			for _, t := range n.collectTriggers(x.Body, vars) {
				if !seen[t] {
					seen[t] = true
					pats = append(pats, ":pattern ("+t+")")
				}
			}
			if len(pats) > 0 && len(x.Vars) == 1 {
				bs = "(! " + bs + " " + strings.Join(pats, " ") + ")"
			}
		}
		if len(x.Triggers) > 0 {
			var pats []string
			for _, alt := range x.Triggers {
				var ts []string
				for _, te := range alt {
					ts = append(ts, n.concrete(n.eval(te)).S)
				}
				pats = append(pats, ":pattern ("+strings.Join(ts, " ")+")")
			}
			bs = "(! " + bs + " " + strings.Join(pats, " ") + ")"
		}
		return Term{fmt.Sprintf("(%s (%s) %s)", kw, strings.Join(decl, " "), bs), sortBool}
	case *EField:
		// package-qualified identifier?
		if id, ok := x.X.(*EIdent); ok {
			if _, isVar := c.lookup(id.Name); !isVar {
				if pk := c.findPkg(id.Name); pk != nil {
					return c.pkgObject(pk, x.Name)
				}
			}
		}
		base := c.eval(x.X)
		return c.field(base, x.Name)
	case *EIndex:
		base := c.eval(x.X)
		idx := c.eval(x.I)
		return c.index(base, idx)
	case *ECall:
		return c.call(x)
	case *ESlice:
		base := c.eval(x.X)
		if base.Sort.Kind == KString {
			lo := Term{"0", sortUntypedInt}
			if x.Lo != nil {
				lo = c.eval(x.Lo)
			}
			lo = c.toMathInt(lo)
			var n string
			if x.Hi != nil {
				hi := c.toMathInt(c.eval(x.Hi))
				n = fmt.Sprintf("(- %s %s)", hi.S, lo.S)
			} else {
				n = fmt.Sprintf("(- (str.len %s) %s)", base.S, lo.S)
			}
			return Term{fmt.Sprintf("(str.substr %s %s %s)", base.S, lo.S, n), base.Sort}
		}
		c.fail("slice expression on %s", base.Sort.Name)
	}
	c.fail("cannot evaluate %s", e.String())
	return Term{}
}

var rawArrayRe = regexp.MustCompile(`^\(Array (\S+) (.+)\)$`)

func ratLit(r *big.Rat) string {
	neg := r.Sign() < 0
	a := new(big.Rat).Abs(r)
	var s string
	if a.IsInt() {
		s = a.Num().String() + ".0"
	} else {
		s = fmt.Sprintf("(/ %s.0 %s.0)", a.Num().String(), a.Denom().String())
	}
	if neg {
		return "(- " + s + ")"
	}
	return s
}

func (c *evalCtx) evalBool(e Expr) Term {
	t := c.eval(e)
	if t.Sort.Kind != KBool {
		c.fail("expected boolean, got %s in %s", t.Sort.Name, e.String())
	}
	return t
}

func (c *evalCtx) ident(name string) Term {
	w := c.w
	if t, ok := c.lookup(name); ok {
		return t
	}
	if e, ok := c.lets[name]; ok {
		return c.eval(e)
	}
	if l, ok := c.cells[name]; ok {
		return c.readCell(l)
	}
	if g, ok := w.P.Spec.Ghosts[name]; ok {
		h := "G_ghost." + name
		w.heapSorts[h] = g
		gs := &Sort{Name: g, Kind: KOther}
		if !strings.HasPrefix(g, "(") {
			gs = c.specSort(g) // scalar ghosts (Int, String, Bool) behave like values of that sort
		}
		return Term{w.heapSym(c.st, h), gs}
	}
	switch name {
	case "true":
		return Term{"true", sortBool}
	case "false":
		return Term{"false", sortBool}
	case "nil":
		return Term{"0", sortNil}
	}
	if c.pkg != nil {
		if o := c.pkg.Scope().Lookup(name); o != nil {
			return c.object(o)
		}
	}
	if f, ok := w.P.Spec.Fns[name]; ok && len(f.Args) == 0 {
		return Term{q(name), c.specSort(f.Ret)}
	}
	c.fail("unknown identifier %q", name)
	return Term{}
}

func (c *evalCtx) pkgObject(pk *types.Package, name string) Term {
	o := pk.Scope().Lookup(name)
	if o == nil {
		c.fail("no object %s.%s", pk.Name(), name)
	}
	return c.object(o)
}

func (c *evalCtx) object(o types.Object) Term {
	w := c.w
	switch ob := o.(type) {
	case *types.Const:
		return w.constTerm(ob.Val(), ob.Type())
	case *types.Var:
		if ob.Pkg() != nil && isSentinelError(ob.Pkg().Path(), ob.Name(), ob.Type()) {
			return w.sentinelTerm(ob.Pkg().Path(), ob.Name())
		}
		s := w.sortOf(ob.Type())
		h := w.globalHeap(ob.Pkg(), ob.Name(), s)
		return Term{w.heapSym(c.st, h), s}
	}
	c.fail("identifier %s is not a constant or variable", o.Name())
	return Term{}
}

func (w *World) constTerm(v constant.Value, t types.Type) Term {
	s := w.sortOf(t)
	switch s.Kind {
	case KBool:
		if constant.BoolVal(v) {
			return Term{"true", s}
		}
		return Term{"false", s}
	case KString:
		return Term{strLit(constant.StringVal(v)), s}
	case KInt:
		bi, ok := constant.Val(constant.ToInt(v)).(*big.Int)
		if !ok {
			i64, _ := constant.Int64Val(constant.ToInt(v))
			bi = big.NewInt(i64)
		}
		if b, isB := t.Underlying().(*types.Basic); isB && b.Info()&types.IsUntyped != 0 {
			return Term{bi.String(), sortUntypedInt}
		}
		return w.intLit(bi, s)
	case KReal:
		f := constant.ToFloat(v)
		r, ok := constant.Val(f).(*big.Rat)
		if !ok {
			if bf, ok2 := constant.Val(f).(*big.Float); ok2 {
				r, _ = bf.Rat(nil)
			} else {
				fl, _ := constant.Float64Val(f)
				r = new(big.Rat).SetFloat64(fl)
			}
		}
		return Term{ratLit(r), s}
	}
	panic(unsupportedErr("constant of sort " + s.Name))
}

// coerce an untyped literal to the sort of the other operand
func (c *evalCtx) coerce(t Term, to *Sort) Term {
	w := c.w
	if t.Sort.Kind == KUntypedInt {
		v, _ := new(big.Int).SetString(t.S, 10)
		switch to.Kind {
		case KInt:
			return w.intLit(v, to)
		case KReal:
			return Term{ratLit(new(big.Rat).SetInt(v)), to}
		case KUntypedInt:
			return t
		case KOther, KRef:
			if v.Sign() < 0 {
				return Term{"(- " + new(big.Int).Neg(v).String() + ")", to}
			}
			return Term{v.String(), to}
		}
		c.fail("cannot use integer literal as %s", to.Name)
	}
	if t.Sort.Kind == KUntypedNil {
		return w.zero(to)
	}
	return t
}

func (c *evalCtx) unify(a, b Term) (Term, Term) {
	if a.Sort.Kind == KUntypedInt && b.Sort.Kind == KUntypedInt {
		return a, b
	}
	if a.Sort.Kind == KUntypedInt || a.Sort.Kind == KUntypedNil {
		return c.coerce(a, b.Sort), b
	}
	if b.Sort.Kind == KUntypedInt || b.Sort.Kind == KUntypedNil {
		return a, c.coerce(b, a.Sort)
	}
	return a, b
}

// materialise: untyped int used where a concrete term is needed
func (c *evalCtx) concrete(t Term) Term {
	if t.Sort.Kind == KUntypedInt {
		return c.coerce(t, c.w.intSort(64, true, types.Typ[types.Int]))
	}
	return t
}

func (c *evalCtx) toMathInt(t Term) Term {
	if t.Sort.Kind == KUntypedInt {
		return c.coerce(t, &Sort{Name: "Int", Kind: KOther})
	}
	if c.w.BV && t.Sort.Kind == KInt {
		if t.Sort.Signed {
			return Term{fmt.Sprintf("(sbv_to_int_%d %s)", t.Sort.Bits, t.S), &Sort{Name: "Int", Kind: KOther}}
		}
		return Term{"(bv2nat " + t.S + ")", &Sort{Name: "Int", Kind: KOther}}
	}
	return t
}

func (c *evalCtx) binary(x *EBinary) Term {
	w := c.w
	switch x.Op {
	case "==>":
		return Term{fmt.Sprintf("(=> %s %s)", c.evalBool(x.L).S, c.evalBool(x.R).S), sortBool}
	case "<==>":
		return Term{fmt.Sprintf("(= %s %s)", c.evalBool(x.L).S, c.evalBool(x.R).S), sortBool}
	case "&&":
		return Term{fmt.Sprintf("(and %s %s)", c.evalBool(x.L).S, c.evalBool(x.R).S), sortBool}
	case "||":
		return Term{fmt.Sprintf("(or %s %s)", c.evalBool(x.L).S, c.evalBool(x.R).S), sortBool}
	}
	a, b := c.eval(x.L), c.eval(x.R)
	if x.Op == "<<" || x.Op == ">>" {
		// shift count coerced to the left operand's sort
		if a.Sort.Kind == KUntypedInt && b.Sort.Kind == KUntypedInt {
			av, _ := new(big.Int).SetString(a.S, 10)
			bv, _ := new(big.Int).SetString(b.S, 10)
			if x.Op == "<<" {
				return Term{new(big.Int).Lsh(av, uint(bv.Int64())).String(), sortUntypedInt}
			}
			return Term{new(big.Int).Rsh(av, uint(bv.Int64())).String(), sortUntypedInt}
		}
		a = c.concrete(a)
		return w.shift(x.Op, a, b)
	}
	if (x.Op == "==" || x.Op == "!=") && ((a.Sort.Kind == KSlice && b.Sort.Kind == KUntypedNil) || (b.Sort.Kind == KSlice && a.Sort.Kind == KUntypedNil)) {
		sl := a
		if a.Sort.Kind != KSlice {
			sl = b
		}
		eq := fmt.Sprintf("(= (s-arr %s) 0)", sl.S)
		if x.Op == "!=" {
			eq = "(not " + eq + ")"
		}
		return Term{eq, sortBool}
	}
	a, b = c.unify(a, b)
	if a.Sort.Kind == KUntypedInt {
		av, _ := new(big.Int).SetString(a.S, 10)
		bv, _ := new(big.Int).SetString(b.S, 10)
		r := new(big.Int)
		switch x.Op {
		case "+":
			return Term{r.Add(av, bv).String(), sortUntypedInt}
		case "-":
			return Term{r.Sub(av, bv).String(), sortUntypedInt}
		case "*":
			return Term{r.Mul(av, bv).String(), sortUntypedInt}
		case "|":
			return Term{r.Or(av, bv).String(), sortUntypedInt}
		case "&":
			return Term{r.And(av, bv).String(), sortUntypedInt}
		}
		a = c.concrete(a)
		b = c.concrete(b)
	}
	switch x.Op {
	case "==":
		return Term{fmt.Sprintf("(= %s %s)", a.S, b.S), sortBool}
	case "!=":
		return Term{fmt.Sprintf("(not (= %s %s))", a.S, b.S), sortBool}
	}
	return w.arith(x.Op, a, b)
}

// arith builds arithmetic/comparison terms for both modes.
func (w *World) arith(op string, a, b Term) Term {
	k := a.Sort.Kind
	if k == KString {
		switch op {
		case "+":
			return Term{fmt.Sprintf("(str.++ %s %s)", a.S, b.S), a.Sort}
		case "<":
			return Term{fmt.Sprintf("(str.< %s %s)", a.S, b.S), sortBool}
		case "<=":
			return Term{fmt.Sprintf("(str.<= %s %s)", a.S, b.S), sortBool}
		case ">":
			return Term{fmt.Sprintf("(str.< %s %s)", b.S, a.S), sortBool}
		case ">=":
			return Term{fmt.Sprintf("(str.<= %s %s)", b.S, a.S), sortBool}
		}
	}
	if w.BV && k == KInt {
		sg := a.Sort.Signed
		pick := func(s, u string) string {
			if sg {
				return s
			}
			return u
		}
		var o string
		isCmp := false
		switch op {
		case "+":
			o = "bvadd"
		case "-":
			o = "bvsub"
		case "*":
			o = "bvmul"
		case "/":
			o = pick("bvsdiv", "bvudiv")
		case "%":
			o = pick("bvsrem", "bvurem")
		case "&":
			o = "bvand"
		case "|":
			o = "bvor"
		case "^":
			o = "bvxor"
		case "&^":
			return Term{fmt.Sprintf("(bvand %s (bvnot %s))", a.S, b.S), a.Sort}
		case "<":
			o, isCmp = pick("bvslt", "bvult"), true
		case "<=":
			o, isCmp = pick("bvsle", "bvule"), true
		case ">":
			o, isCmp = pick("bvsgt", "bvugt"), true
		case ">=":
			o, isCmp = pick("bvsge", "bvuge"), true
		}
		if o == "" {
			panic(unsupportedErr("bv operator " + op))
		}
		if isCmp {
			return Term{fmt.Sprintf("(%s %s %s)", o, a.S, b.S), sortBool}
		}
		return Term{fmt.Sprintf("(%s %s %s)", o, a.S, b.S), a.Sort}
	}
	switch op {
	case "+", "-", "*":
		return Term{fmt.Sprintf("(%s %s %s)", op, a.S, b.S), a.Sort}
	case "/":
		if k == KReal {
			return Term{fmt.Sprintf("(/ %s %s)", a.S, b.S), a.Sort}
		}
		// Go truncated division
		return Term{fmt.Sprintf("(go_div %s %s)", a.S, b.S), a.Sort}
	case "%":
		return Term{fmt.Sprintf("(go_mod %s %s)", a.S, b.S), a.Sort}
	case "<", "<=", ">", ">=":
		return Term{fmt.Sprintf("(%s %s %s)", op, a.S, b.S), sortBool}
	case "&", "|", "^", "&^":
		name := map[string]string{"&": "int_and", "|": "int_or", "^": "int_xor", "&^": "int_andnot"}[op]
		return Term{fmt.Sprintf("(%s %s %s)", name, a.S, b.S), a.Sort}
	}
	panic(unsupportedErr("operator " + op + " on " + a.Sort.Name))
}

func (w *World) shift(op string, a, b Term) Term {
	if w.BV && a.Sort.Kind == KInt {
		// bring b to a's width
		var bs string
		switch {
		case b.Sort.Kind == KUntypedInt:
			v, _ := new(big.Int).SetString(b.S, 10)
			bs = w.intLit(v, a.Sort).S
		case b.Sort.Bits == a.Sort.Bits:
			bs = b.S
		case b.Sort.Bits < a.Sort.Bits:
			bs = fmt.Sprintf("((_ zero_extend %d) %s)", a.Sort.Bits-b.Sort.Bits, b.S)
		default:
			// saturate: if b >= width the result is 0/sign anyway; extract low bits but guard
			bs = fmt.Sprintf("(ite (bvuge %s (_ bv%d %d)) (_ bv%d %d) ((_ extract %d 0) %s))", b.S, a.Sort.Bits, b.Sort.Bits, a.Sort.Bits, a.Sort.Bits, a.Sort.Bits-1, b.S)
		}
		o := "bvshl"
		if op == ">>" {
			o = "bvlshr"
			if a.Sort.Signed {
				o = "bvashr"
			}
		}
		return Term{fmt.Sprintf("(%s %s %s)", o, a.S, bs), a.Sort}
	}
	// int mode: constant shifts only
	if b.Sort.Kind == KUntypedInt || isNumeral(b.S) {
		v, _ := new(big.Int).SetString(b.S, 10)
		p := new(big.Int).Lsh(big.NewInt(1), uint(v.Int64()))
		if op == "<<" {
			return Term{fmt.Sprintf("(* %s %s)", a.S, p.String()), a.Sort}
		}
		return Term{fmt.Sprintf("(div %s %s)", a.S, p.String()), a.Sort}
	}
	name := "int_shl"
	if op == ">>" {
		name = "int_shr"
	}
	return Term{fmt.Sprintf("(%s %s %s)", name, a.S, b.S), a.Sort}
}

func isNumeral(s string) bool {
	if s == "" {
		return false
	}
	for _, c := range s {
		if c < '0' || c > '9' {
			return false
		}
	}
	return true
}

func (c *evalCtx) field(base Term, name string) Term {
	w := c.w
	gt := base.Sort.Go
	if gt == nil {
		c.fail("field %s of untyped term %s", name, base.S)
	}
	// special: slice pseudo-fields
	if base.Sort.Kind == KSlice {
		switch name {
		case "arr", "off", "len", "cap":
			return Term{fmt.Sprintf("(s-%s %s)", name, base.S), &Sort{Name: "Int", Kind: KOther}}
		}
	}
	if base.Sort.Kind == KIface {
		switch name {
		case "dyn", "val":
			return Term{fmt.Sprintf("(i-%s %s)", name, base.S), &Sort{Name: "Int", Kind: KOther}}
		}
	}
	obj, path, _ := types.LookupFieldOrMethod(gt, true, c.pkg, name)
	if obj == nil {
		// specifications may name unexported fields of another package's types
		t0 := gt
		if p, ok := t0.Underlying().(*types.Pointer); ok {
			t0 = p.Elem()
		}
		if nt, ok := t0.(*types.Named); ok && nt.Obj().Pkg() != nil {
			obj, path, _ = types.LookupFieldOrMethod(gt, true, nt.Obj().Pkg(), name)
		}
	}
	fv, ok := obj.(*types.Var)
	if !ok || !fv.IsField() {
		c.fail("no field %s in %v", name, gt)
	}
	cur := base
	curT := gt
	for _, idx := range path {
		var st *types.Struct
		isPtr := false
		if p, ok := curT.Underlying().(*types.Pointer); ok {
			isPtr = true
			curT = p.Elem()
		}
		st, ok = curT.Underlying().(*types.Struct)
		if !ok {
			c.fail("field path through non-struct %v", curT)
		}
		ss := w.sortOf(curT)
		fi := w.fieldsOf(ss)[idx]
		if isPtr {
			h := w.fieldHeap(ss, fi)
			cur = Term{fmt.Sprintf("(select %s %s)", w.heapSym(c.st, h), cur.S), fi.Sort}
		} else {
			cur = Term{fmt.Sprintf("(%s %s)", q(fi.Acc), cur.S), fi.Sort}
		}
		curT = st.Field(idx).Type()
	}
	return cur
}

func (c *evalCtx) index(base, idx Term) Term {
	w := c.w
	switch base.Sort.Kind {
	case KSlice:
		et := base.Sort.Go.Underlying().(*types.Slice).Elem()
		es := w.sortOf(et)
		h := w.elemHeap(es)
		i := w.toIdx(c.concrete(idx))
		return Term{fmt.Sprintf("(select (select %s (s-arr %s)) %s)", w.heapSym(c.st, h), base.S, w.sidx("(s-off "+base.S+")", i)), es}
	case KArray:
		i := w.toIdx(c.concrete(idx))
		return Term{fmt.Sprintf("(select %s %s)", base.S, i), base.Sort.Elem}
	case KOther:
		if m := rawArrayRe.FindStringSubmatch(base.Sort.Name); m != nil && !strings.HasPrefix(base.Sort.Name, "(Array "+w.idxSortName()+" ") {
			ks := c.specSort(m[1])
			k := c.coerce(idx, ks)
			return Term{fmt.Sprintf("(select %s %s)", base.S, k.S), c.specSort(m[2])}
		}
		// raw SMT array (from arr(s) or a spec function)
		pre := "(Array " + w.idxSortName() + " "
		if strings.HasPrefix(base.Sort.Name, pre) {
			es := base.Sort.Elem
			if es == nil {
				es = c.specSort(strings.TrimSuffix(strings.TrimPrefix(base.Sort.Name, pre), ")"))
			}
			i := w.toIdx(c.concrete(idx))
			return Term{fmt.Sprintf("(select %s %s)", base.S, i), es}
		}
	case KMap:
		mt := base.Sort.Go.Underlying().(*types.Map)
		ks, vs := w.sortOf(mt.Key()), w.sortOf(mt.Elem())
		_, hv := w.mapHeaps(ks, vs)
		k := c.coerce(idx, ks)
		return Term{fmt.Sprintf("(select (select %s %s) %s)", w.heapSym(c.st, hv), base.S, k.S), vs}
	}
	c.fail("cannot index %s", base.Sort.Name)
	return Term{}
}

func (w *World) mapHeaps(ks, vs *Sort) (dom, val string) {
	dom = "Mdom_" + sanitize(ks.Name) + "_" + sanitize(vs.Name)
	val = "Mval_" + sanitize(ks.Name) + "_" + sanitize(vs.Name)
	w.heapSorts[dom] = "(Array Int (Array " + ks.Name + " Bool))"
	w.heapSorts[val] = "(Array Int (Array " + ks.Name + " " + vs.Name + "))"
	return
}

// specSort builds a Sort from SMT sort text appearing in a spec signature.
func (c *evalCtx) specSort(name string) *Sort {
	w := c.w
	switch name {
	case "Bool":
		return sortBool
	case "String":
		return sortString
	case "Real":
		return sortReal
	case "Slice":
		return &Sort{Name: "Slice", Kind: KSlice}
	case "Iface":
		return &Sort{Name: "Iface", Kind: KIface}
	}
	if s, ok := w.structSorts[strings.Trim(name, "|")]; ok {
		return s
	}
	if strings.HasPrefix(name, "(_ BitVec ") {
		var n int
		fmt.Sscanf(name, "(_ BitVec %d)", &n)
		return &Sort{Name: name, Kind: KInt, Bits: n, Signed: true}
	}
	if name == "Int" {
		if w.BV {
			return &Sort{Name: "Int", Kind: KOther}
		}
		return &Sort{Name: "Int", Kind: KInt, Bits: 64, Signed: true}
	}
	return &Sort{Name: name, Kind: KOther}
}

func (c *evalCtx) call(x *ECall) Term {
	w := c.w
	// pkg.Type(e): parsed as a method-style call on the identifier pkg
	if strings.HasPrefix(x.Fn, ".") && len(x.Args) == 2 {
		if id, ok := x.Args[0].(*EIdent); ok {
			if _, isVar := c.lookup(id.Name); !isVar {
				if gt := c.resolveType(id.Name + x.Fn); gt != nil {
					a := c.eval(x.Args[1])
					to := w.sortOf(gt)
					if a.Sort.Kind == KUntypedInt {
						return c.coerce(a, to)
					}
					return w.convert(a, to)
				}
			}
		}
	}
	switch x.Fn {
	case "len", "cap":
		if len(x.Args) != 1 {
			c.fail("%s takes one argument", x.Fn)
		}
		a := c.eval(x.Args[0])
		is := w.intSort(64, true, types.Typ[types.Int])
		switch a.Sort.Kind {
		case KSlice:
			return Term{fmt.Sprintf("(s-%s %s)", x.Fn, a.S), is}
		case KString:
			return w.fromMathInt(fmt.Sprintf("(str.len %s)", a.S), is)
		case KArray:
			n := a.Sort.Go.Underlying().(*types.Array).Len()
			return w.intLit64(n, is)
		case KMap:
			mt := a.Sort.Go.Underlying().(*types.Map)
			w.declFun("map_len", []string{"Int"}, "Int")
			_ = mt
			return w.fromMathInt(fmt.Sprintf("(map_len %s)", a.S), is)
		}
		c.fail("len of %s", a.Sort.Name)
	case "arr":
		a := c.eval(x.Args[0])
		if a.Sort.Kind != KSlice {
			c.fail("arr() of non-slice")
		}
		es := w.sortOf(a.Sort.Go.Underlying().(*types.Slice).Elem())
		h := w.elemHeap(es)
		return Term{fmt.Sprintf("(select %s (s-arr %s))", w.heapSym(c.st, h), a.S), &Sort{Name: "(Array " + w.idxSortName() + " " + es.Name + ")", Kind: KOther, Elem: es}}
	case "off", "aref":
		a := c.eval(x.Args[0])
		if a.Sort.Kind != KSlice {
			c.fail("%s() of non-slice", x.Fn)
		}
		f := "s-off"
		if x.Fn == "aref" {
			f = "s-arr"
		}
		return Term{fmt.Sprintf("(%s %s)", f, a.S), w.mathOrInt()}
	case "sidx":
		a := w.toIdx(c.concrete(c.eval(x.Args[0])))
		b := w.toIdx(c.concrete(c.eval(x.Args[1])))
		return Term{w.sidx(a, b), w.goInt()}
	case "fresh":
		a := c.eval(x.Args[0])
		if c.old == nil {
			c.fail("fresh() needs a two-state context")
		}
		r := a.S
		if a.Sort.Kind == KSlice {
			r = "(s-arr " + a.S + ")"
		}
		return Term{fmt.Sprintf("(and (> %s %s) (<= %s %s))", r, c.old.alloc, r, c.st.alloc), sortBool}
	case "res":
		// res("callee"): the value returned by the one call in this function whose callee name contains
		// the given text (for results the source does not bind to a name, e.g. `range f(x)`)
		sarg, ok := x.Args[0].(*EString)
		if !ok || len(x.Args) != 1 || c.ft == nil {
			c.fail("res(\"callee\")")
		}
		var found *ssa.Call
		for _, b := range c.ft.fn.Blocks {
			for _, in := range b.Instrs {
				if call, ok := in.(*ssa.Call); ok && strings.Contains(calleeName(call.Common()), sarg.V) {
					if found != nil {
						c.fail("res(%q): more than one such call", sarg.V)
					}
					found = call
				}
			}
		}
		if found == nil {
			c.fail("res(%q): no such call", sarg.V)
		}
		v := c.ft.vals[found]
		if v == nil || v.Tup != nil {
			c.fail("res(%q): result not available here", sarg.V)
		}
		return v.T
	case "athead":
		// athead(e): e as it was when this iteration started (iterpost clauses only)
		if c.headSt == nil || len(x.Args) != 1 {
			c.fail("athead(e) is available in iterpost clauses only")
		}
		n := *c
		// loop variables have their value at the loop head; names that only exist in the body keep their
		// current value and are read against the head state (athead(allocated(p)): was p allocated then?)
		env := map[string]Term{}
		for k, v := range c.env {
			env[k] = v
		}
		for k, v := range c.headEnv {
			env[k] = v
		}
		n.st, n.env = c.headSt, env
		return n.eval(x.Args[0])
	case "allocated":
		a := c.eval(x.Args[0])
		r := a.S
		if a.Sort.Kind == KSlice {
			r = "(s-arr " + a.S + ")"
		}
		return Term{fmt.Sprintf("(and (<= 0 %s) (<= %s %s))", r, r, c.st.alloc), sortBool}
	case "istype":
		// istype(e, "T") : dynamic type of interface value e is T (type resolved in package)
		a := c.eval(x.Args[0])
		s, ok := x.Args[1].(*EString)
		if !ok || a.Sort.Kind != KIface {
			c.fail("istype(iface, \"type\")")
		}
		gt := c.resolveType(s.V)
		if gt == nil {
			c.fail("unknown type %q", s.V)
		}
		return Term{fmt.Sprintf("(= (i-dyn %s) %d)", a.S, w.typeID(gt)), sortBool}
	case "heapof":
		// heapof(pkg.T.f): the current field heap as an SMT array (for opaque spec predicates)
		fe, ok := x.Args[0].(*EField)
		if !ok {
			c.fail("heapof(pkg.Type.field)")
		}
		ft := &funcTrans{w: w}
		h, ok := ft.typeLevelField(c, fe)
		if !ok {
			c.fail("heapof: not a struct field: %s", fe.String())
		}
		return Term{w.heapSym(c.st, h), &Sort{Name: w.heapSorts[h], Kind: KOther}}
	case "faddr":
		// faddr(p, k): the (opaque) address of the k-th field of the object p points to
		a := c.eval(x.Args[0])
		k, ok := x.Args[1].(*EInt)
		if !ok {
			c.fail("faddr(p, <field index>)")
		}
		w.declFaddr()
		return Term{fmt.Sprintf("(faddr %s %s)", a.S, k.V), &Sort{Name: "Int", Kind: KOther}}
	case "deref":
		// deref(p): value of the scalar cell p points to
		a := c.eval(x.Args[0])
		pt, ok := a.Sort.Go.Underlying().(*types.Pointer)
		if !ok {
			c.fail("deref of non-pointer")
		}
		es := w.sortOf(pt.Elem())
		if es.Kind == KStruct || es.Kind == KArray {
			c.fail("deref of pointer to aggregate")
		}
		return Term{fmt.Sprintf("(select %s %s)", w.heapSym(c.st, w.cellHeap(es)), a.S), es}
	case "asptr":
		// asptr(e, "*T"): the pointer stored in interface value e (meaningful when istype(e, "*T"))
		a := c.eval(x.Args[0])
		st, ok := x.Args[1].(*EString)
		if !ok || a.Sort.Kind != KIface {
			c.fail("asptr(iface, \"*T\")")
		}
		gt := c.resolveType(st.V)
		if gt == nil {
			c.fail("unknown type %q", st.V)
		}
		return Term{fmt.Sprintf("(i-val %s)", a.S), w.sortOf(gt)}
	case "has":
		// has(m, k): key k is in map m
		m := c.eval(x.Args[0])
		if m.Sort.Kind != KMap {
			c.fail("has(map, key)")
		}
		mt := m.Sort.Go.Underlying().(*types.Map)
		ks, vs := w.sortOf(mt.Key()), w.sortOf(mt.Elem())
		hd, _ := w.mapHeaps(ks, vs)
		k := c.coerce(c.eval(x.Args[1]), ks)
		return Term{fmt.Sprintf("(and (not (= %s 0)) (select (select %s %s) %s))", m.S, w.heapSym(c.st, hd), m.S, k.S), sortBool}
	case "f64":
		// f64(literal): the float64 nearest to the literal, as an exact rational (what the Go
		// constant denotes at run time)
		var lit string
		switch a := x.Args[0].(type) {
		case *EFloat:
			lit = a.V
		case *EInt:
			lit = a.V
		default:
			c.fail("f64(numeric literal)")
		}
		f, err := strconv.ParseFloat(lit, 64)
		if err != nil {
			c.fail("f64: %v", err)
		}
		r := new(big.Rat)
		r.SetFloat64(f)
		return Term{ratLit(r), sortReal}
	case "hasPrefix", "hasSuffix":
		// hasPrefix(s, p), hasSuffix(s, p) on strings
		a, b := c.eval(x.Args[0]), c.eval(x.Args[1])
		if a.Sort.Kind != KString || b.Sort.Kind != KString {
			c.fail("%s(string, string)", x.Fn)
		}
		op := "str.prefixof"
		if x.Fn == "hasSuffix" {
			op = "str.suffixof"
		}
		return Term{fmt.Sprintf("(%s %s %s)", op, b.S, a.S), sortBool}
	case "real":
		a := c.concrete(c.eval(x.Args[0]))
		if a.Sort.Kind == KReal {
			return a
		}
		return Term{"(to_real " + c.toMathInt(a).S + ")", sortReal}
	case "int", "int64":
		a := c.eval(x.Args[0])
		return c.coerce(a, w.intSort(64, true, types.Typ[types.Int64]))
	case ".Before", ".After", ".Equal":
		a, b := c.eval(x.Args[0]), c.eval(x.Args[1])
		op := map[string]string{".Before": "<", ".After": ">", ".Equal": "="}[x.Fn]
		return Term{fmt.Sprintf("(%s %s %s)", op, a.S, b.S), sortBool}
	case ".IsZero":
		a := c.eval(x.Args[0])
		return Term{fmt.Sprintf("(= %s time_zero)", a.S), sortBool}
	}
	if strings.HasPrefix(x.Fn, ".") {
		c.fail("method call %s not supported in contracts", x.Fn)
	}
	// Go type conversion e.g. FeatureID(x), int64(x)
	if gt := c.resolveType(x.Fn); gt != nil && len(x.Args) == 1 {
		if _, known := w.P.Spec.Fns[x.Fn]; !known {
			a := c.eval(x.Args[0])
			to := w.sortOf(gt)
			if a.Sort.Kind == KUntypedInt {
				return c.coerce(a, to)
			}
			return w.convert(a, to)
		}
	}
	if d, ok := globalDefs[x.Fn]; ok {
		if len(d.Params) != len(x.Args) {
			c.fail("%s expects %d arguments", x.Fn, len(d.Params))
		}
		scope := map[string]Term{}
		for i, a := range x.Args {
			scope[d.Params[i]] = c.eval(a)
		}
		n := *c
		n.bound = append(append([]map[string]Term{}, c.bound...), scope)
		return n.eval(d.Body)
	}
	f, ok := w.P.Spec.Fns[x.Fn]
	if !ok {
		c.fail("unknown function %q", x.Fn)
	}
	if len(f.Args) != len(x.Args) {
		c.fail("%s expects %d arguments", x.Fn, len(f.Args))
	}
	var parts []string
	for i, a := range x.Args {
		t := c.eval(a)
		t = c.coerce(t, c.specSort(f.Args[i]))
		if t.Sort.Name != f.Args[i] {
			// allow Int-like kinds
			if !(f.Args[i] == "Int" && t.Sort.Name == "Int") {
				c.fail("argument %d of %s: have %s, want %s", i, x.Fn, t.Sort.Name, f.Args[i])
			}
		}
		parts = append(parts, t.S)
	}
	return Term{"(" + q(x.Fn) + " " + strings.Join(parts, " ") + ")", c.specSort(f.Ret)}
}

func (w *World) mathOrInt() *Sort {
	if w.BV {
		return &Sort{Name: "Int", Kind: KOther}
	}
	return w.intSort(64, true, types.Typ[types.Int])
}

// fromMathInt wraps a mathematical-Int SMT term as a Go int of sort s.
func (w *World) fromMathInt(t string, s *Sort) Term {
	if w.BV {
		return Term{fmt.Sprintf("((_ int2bv %d) %s)", s.Bits, t), s}
	}
	return Term{t, s}
}

// convert implements Go conversions between basic sorts.
func (w *World) convert(a Term, to *Sort) Term {
	from := a.Sort
	switch {
	case from.Kind == KInt && to.Kind == KInt:
		if w.BV {
			switch {
			case from.Bits == to.Bits:
				return Term{a.S, to}
			case from.Bits > to.Bits:
				return Term{fmt.Sprintf("((_ extract %d 0) %s)", to.Bits-1, a.S), to}
			case from.Signed:
				return Term{fmt.Sprintf("((_ sign_extend %d) %s)", to.Bits-from.Bits, a.S), to}
			default:
				return Term{fmt.Sprintf("((_ zero_extend %d) %s)", to.Bits-from.Bits, a.S), to}
			}
		}
		return Term{a.S, to}
	case from.Kind == KInt && to.Kind == KReal:
		if w.BV {
			panic(unsupportedErr("int->float in bv mode"))
		}
		return Term{"(to_real " + a.S + ")", to}
	case from.Kind == KReal && to.Kind == KInt:
		if w.BV {
			panic(unsupportedErr("float->int in bv mode"))
		}
		return Term{fmt.Sprintf("(go_trunc %s)", a.S), to}
	case from.Kind == to.Kind:
		return Term{a.S, to}
	case from.Kind == KInt && to.Kind == KString:
		w.declFun("rune_to_string", []string{from.Name}, "String")
		return Term{"(rune_to_string " + a.S + ")", to}
	case from.Kind == KSlice && to.Kind == KString:
		w.declFun("bytes_to_string", []string{"Slice", "Int"}, "String")
		return Term{"(bytes_to_string " + a.S + " 0)", to}
	case from.Kind == KString && to.Kind == KSlice:
		panic(unsupportedErr("string->[]byte conversion"))
	}
	panic(unsupportedErr(fmt.Sprintf("conversion %s -> %s", from.Name, to.Name)))
}

// collectTriggers finds element accesses indexed directly by a bound variable.
func (c *evalCtx) collectTriggers(e Expr, vars map[string]bool) []string {
	var out []string
	isVarIdx := func(i Expr) bool {
		switch y := i.(type) {
		case *EIdent:
			return vars[y.Name]
		case *ECall:
			if y.Fn == "sidx" && len(y.Args) == 2 {
				if id, ok := y.Args[1].(*EIdent); ok {
					return vars[id.Name]
				}
			}
		}
		return false
	}
	var walk func(e Expr, cc *evalCtx)
	walk = func(e Expr, cc *evalCtx) {
		switch x := e.(type) {
		case *EIndex:
			if isVarIdx(x.I) {
				func() {
					defer func() { recover() }()
					t := cc.eval(x)
					out = append(out, t.S)
				}()
			}
			walk(x.X, cc)
			walk(x.I, cc)
		case *EOld:
			if cc.old != nil {
				n := *cc
				n.st = cc.old
				walk(x.X, &n)
			}
		case *EUnary:
			walk(x.X, cc)
		case *EBinary:
			walk(x.L, cc)
			walk(x.R, cc)
		case *ECall:
			for _, a := range x.Args {
				walk(a, cc)
			}
		case *EField:
			walk(x.X, cc)
		case *ECond:
			walk(x.C, cc)
			walk(x.T, cc)
			walk(x.F, cc)
		case *EIdent:
			if le, ok := cc.lets[x.Name]; ok {
				if _, bound := cc.lookup(x.Name); !bound {
					walk(le, cc)
				}
			}
		}
	}
	walk(e, c)
	return out
}
