package main

import (
	"go/token"
	"go/ast"
	"sort"
	"fmt"
	"os"
	"go/types"
	"strings"

	"golang.org/x/tools/go/ssa"
)

func (ft *funcTrans) isMarker(fn *ssa.Function) bool {
	switch fn.Name() {
	case "vAssert", "vAssume", "vCover":
		return true
	}
	return false
}

// calleeContract finds the contract that governs a call.
func (ft *funcTrans) calleeContract(com *ssa.CallCommon) *Contract {
	if com.IsInvoke() {
		// interface method: key "(pkg.Iface).Method"
		key := "(" + types.TypeString(com.Value.Type(), nil) + ")." + com.Method.Name()
		return ft.p.Contracts[key]
	}
	if fn := com.StaticCallee(); fn != nil {
		// contract specialised by the dynamic type of an interface argument:
		// key "pkg.Func<concrete type>" (e.g. sort.Sort<github.com/paulmach/osm.updatesSortIndex>)
		for _, a := range com.Args {
			if mi, ok := a.(*ssa.MakeInterface); ok {
				key := fn.String() + "<" + types.TypeString(mi.X.Type(), nil) + ">"
				if c := ft.p.Contracts[key]; c != nil {
					return c
				}
			}
		}
		if c := ft.p.Contracts[fn.String()]; c != nil {
			return c
		}
		return nil
	}
	// call through a func-typed struct field: contract keyed "funcfield:<pkgpath>.<Struct>.<Field>"
	if key := funcFieldKey(com.Value); key != "" {
		if c := ft.p.Contracts[key]; c != nil {
			return c
		}
	}
	// call of a func-typed parameter of the function under contract: "funcparam:<pkgpath>.<Func>.<param>"
	if pa, ok := com.Value.(*ssa.Parameter); ok && pa.Parent() != nil && pa.Parent().Pkg != nil {
		if c := ft.p.Contracts["funcparam:"+pa.Parent().Pkg.Pkg.Path()+"."+pa.Parent().Name()+"."+pa.Name()]; c != nil {
			return c
		}
	}
	// call of a value of a named func type: contract keyed "functype:<pkgpath>.<Type>"
	if nt, ok := com.Value.Type().(*types.Named); ok {
		if _, isSig := nt.Underlying().(*types.Signature); isSig && nt.Obj().Pkg() != nil {
			return ft.p.Contracts["functype:"+nt.Obj().Pkg().Path()+"."+nt.Obj().Name()]
		}
	}
	return nil
}

func funcFieldKey(v ssa.Value) string {
	u, ok := v.(*ssa.UnOp)
	if !ok {
		return ""
	}
	fa, ok := u.X.(*ssa.FieldAddr)
	if !ok {
		return ""
	}
	pt, ok := fa.X.Type().Underlying().(*types.Pointer)
	if !ok {
		return ""
	}
	nt, ok := pt.Elem().(*types.Named)
	if !ok || nt.Obj().Pkg() == nil {
		return ""
	}
	st, ok := nt.Underlying().(*types.Struct)
	if !ok {
		return ""
	}
	return "funcfield:" + nt.Obj().Pkg().Path() + "." + nt.Obj().Name() + "." + st.Field(fa.Field).Name()
}

// callReqs: the `callreq` clauses of the function under contract that apply to this call site.
func (ft *funcTrans) callReqs(in ssa.CallInstruction, com *ssa.CallCommon, name string, callNo int) {
	st := ft.curSt
	if ft.c != nil {
		for k, cr := range ft.c.CallReqs {
			want := cr.Callee
			if i := strings.LastIndex(want, "#"); i > 0 && !strings.HasPrefix(want, "append") {
				// "Callee#n": only the n-th call (in source order) of a callee with that name
				n := 0
				fmt.Sscanf(want[i+1:], "%d", &n)
				want = want[:i]
				if !strings.Contains(name, want) || ft.callOrdinal(want, in.Pos()) != n {
					continue
				}
			}
			if strings.Contains(name, want) {
				ec := ft.localCtx(st)
				// the actual arguments of this call: arg0.. (arg0 is the receiver of a method call)
				{
					k := 0
					if com.IsInvoke() {
						ec.env["arg0"] = ft.termOf(com.Value)
						k = 1
					}
					for _, a := range com.Args {
						if v := ft.valOf(a); v.L == nil && v.Tup == nil && v.Bad == "" {
							ec.env[fmt.Sprintf("arg%d", k)] = v.T
						}
						k++
					}
				}
				t := ec.evalBool(cr.C.E)
				o := ft.obligation("callreq", fmt.Sprintf("call%d.%s.callreq%d", callNo, shortName(name), k+1), cr.C.Src, t.S)
				o.Where = posStr(ft.p.SSA.Fset, in.Pos())
			}
		}
	}
}

// callOrdinal: position (1-based, source order) of the call at pos among the calls of this function
// whose callee name contains base.
func (ft *funcTrans) callOrdinal(base string, pos token.Pos) int {
	var sites []token.Pos
	for _, b := range ft.fn.Blocks {
		for _, in := range b.Instrs {
			if ci, ok := in.(ssa.CallInstruction); ok {
				if _, isB := ci.Common().Value.(*ssa.Builtin); isB {
					continue
				}
				if strings.Contains(calleeName(ci.Common()), base) {
					sites = append(sites, ci.Pos())
				}
			}
		}
	}
	sort.Slice(sites, func(i, j int) bool { return sites[i] < sites[j] })
	for i, p := range sites {
		if p == pos {
			return i + 1
		}
	}
	return 0
}

func calleeName(com *ssa.CallCommon) string {
	if k := funcFieldKey(com.Value); k != "" && com.StaticCallee() == nil && !com.IsInvoke() {
		return k
	}
	if com.IsInvoke() {
		return "(" + types.TypeString(com.Value.Type(), nil) + ")." + com.Method.Name()
	}
	if fn := com.StaticCallee(); fn != nil {
		return fn.String()
	}
	return "dynamic call via " + com.Value.Name()
}

func (ft *funcTrans) call(in ssa.CallInstruction, val *ssa.Call) {
	w := ft.w
	com := in.Common()
	if bi, ok := com.Value.(*ssa.Builtin); ok {
		if bi.Name() == "append" && ft.c != nil && len(ft.c.CallReqs) > 0 {
			ft.appendReqs(com, in)
		}
		ft.builtin(bi, com, val)
		return
	}
	callee := com.StaticCallee()
	if ft.isXMLEncoderCall(com) {
		ft.callReqs(in, com, calleeName(com), 0)
	}
	if ft.xmlEncoderCall(com, val) {
		return
	}
	if callee != nil && ft.isMarker(callee) {
		arg := ft.termOf(com.Args[0])
		switch callee.Name() {
		case "vAssert":
			ft.nAsserts++
			o := ft.obligation("assert", fmt.Sprintf("assert%d", ft.nAsserts), "vAssert at "+posStr(ft.p.SSA.Fset, in.Pos()), arg.S)
			o.Where = posStr(ft.p.SSA.Fset, in.Pos())
		case "vAssume":
			ft.assume(arg.S)
		case "vCover":
			ft.nAsserts++
			o := ft.obligation("cover", fmt.Sprintf("cover%d", ft.nAsserts), "vCover at "+posStr(ft.p.SSA.Fset, in.Pos()), arg.S)
			o.Cover = true
			// covers are not assumed afterwards
			w.popFact()
		}
		return
	}
	if callee != nil && val != nil && callee.Pkg != nil && callee.Pkg.Pkg.Path() == "sync/atomic" && strings.HasPrefix(callee.Name(), "Load") && len(com.Args) == 1 {
		// atomic load = load (sequential reasoning; trusted)
		w.assumptions["sync/atomic.Load* modelled as a plain load"] = true
		l := ft.locOfPointer(com.Args[0])
		t := ft.readLoc(ft.curSt, l)
		t.Sort = w.sortOf(val.Type())
		ft.define(val, t)
		return
	}
	ft.nCalls++
	c := ft.calleeContract(com)
	name := calleeName(com)
	st := ft.curSt
	ft.callReqs(in, com, name, ft.nCalls)
	inferredFrame := callee != nil && ft.p.writesOnlyFresh(callee)
	if c == nil {
		// unknown callee: result unconstrained; heap havocked unless the callee
		// provably writes only memory it allocates itself
		if inferredFrame {
			w.assumptions["call without contract: "+name+" (result unconstrained; frame inferred from its body: writes only fresh memory)"] = true
			ft.bumpAlloc(st)
		} else {
			w.assumptions["call without contract: "+name+" (result and heap havocked)"] = true
			ft.havocAll(st)
		}
		if val != nil {
			ft.havocValue(val, "")
		}
		return
	}
	if c.Trusted {
		w.assumptions["trusted contract: "+name] = true
	}
	// actuals
	var sig *types.Signature
	var actuals []Term
	if com.IsInvoke() {
		sig = com.Method.Type().(*types.Signature)
		actuals = append(actuals, ft.termOf(com.Value))
	} else {
		sig = com.Value.Type().Underlying().(*types.Signature)
	}
	specialised := strings.Contains(c.Key, "<")
	opaqueLocs := map[int]*Loc{}
	for _, a := range com.Args {
		if v := ft.valOf(a); v.Opaque {
			opaqueLocs[len(actuals)] = v.L
		}
		if specialised {
			if mi, ok := a.(*ssa.MakeInterface); ok && strings.Contains(c.Key, "<"+types.TypeString(mi.X.Type(), nil)+">") {
				if _, isGlobal := mi.X.(*ssa.Global); isGlobal {
					// opaque address of a package-level variable (see MakeInterface)
					actuals = append(actuals, Term{fmt.Sprintf("(i-val %s)", ft.termOf(mi).S), &Sort{Name: "Int", Kind: KRef, Go: mi.X.Type()}})
					continue
				}
				actuals = append(actuals, ft.termOf(mi.X))
				continue
			}
		}
		v := ft.valOf(a)
		if (v.L != nil && !v.Opaque) || v.Bad != "" {
			// interior pointer passed to a call: cannot model
			panic(unsupportedErr("interior pointer passed to " + name))
		}
		actuals = append(actuals, v.T)
	}
	env := map[string]Term{}
	idx := 0
	var pkg *types.Package
	if callee != nil && callee.Pkg != nil {
		pkg = callee.Pkg.Pkg
	} else if callee != nil && callee.Object() != nil {
		pkg = callee.Object().Pkg()
	} else if com.IsInvoke() {
		pkg = com.Method.Pkg()
	} else {
		pkg = ft.pkgTypes()
	}
	if !com.IsInvoke() && callee == nil {
		// dynamic call of a function value: "self" names the value called
		env["self"] = ft.termOf(com.Value)
	}
	opaqueByName := map[string]*Loc{}
	bind := func(name string, t Term, formal types.Type) {
		if formal != nil && (t.Sort.Kind == KUntypedInt || t.Sort.Kind == KUntypedNil) {
			t = ft.coerceTo(t, w.sortOf(formal))
		}
		if l, ok := opaqueLocs[idx]; ok && name != "" {
			opaqueByName[name] = l
		}
		if name != "" && name != "_" {
			env[name] = t
			env[name+"0"] = t
		}
		env[fmt.Sprintf("arg%d", idx)] = t
		idx++
	}
	ai := 0
	if recv := sig.Recv(); recv != nil && (com.IsInvoke() || callee != nil) {
		if ai < len(actuals) {
			bind(recv.Name(), actuals[ai], recv.Type())
			env["recv"] = env[fmt.Sprintf("arg%d", idx-1)]
			ai++
		}
	}
	for i := 0; i < sig.Params().Len() && ai < len(actuals); i++ {
		prm := sig.Params().At(i)
		bind(prm.Name(), actuals[ai], prm.Type())
		ai++
	}
	pre := st.clone()
	ecPre := &evalCtx{w: w, pkg: pkg, env: env, st: pre, old: pre, lets: c.Lets, opaque: opaqueByName, ft: ft}
	for i, r := range c.Requires {
		if (c.Mode == "bv") != w.BV && !c.Trusted {
			// contract written for the other integer mode: only its frame is used here
			w.assumptions["preconditions of "+name+" not checked here (contract is in "+c.Mode+" mode)"] = true
			break
		}
		if c.InitReq[i] {
			w.assumptions["precondition of "+name+" established by package init, not re-proved at call sites: "+r.Src] = true
			continue
		}
		t := ecPre.evalBool(r.E)
		o := ft.obligation("requires", fmt.Sprintf("call%d.%s.requires%d", ft.nCalls, shortName(name), i+1), r.Src, t.S)
		o.Where = posStr(ft.p.SSA.Fset, in.Pos())
	}
	if ft.c != nil && ft.c.NoPanic && !c.NoPanic && !c.Trusted && !strings.HasPrefix(c.Key, "funcfield:") && !strings.HasPrefix(c.Key, "functype:") && !strings.HasPrefix(c.Key, "funcparam:") {
		o := ft.obligation("nopanic", fmt.Sprintf("call%d.%s.nopanic", ft.nCalls, shortName(name)), "callee must be nopanic", "false")
		o.Where = posStr(ft.p.SSA.Fset, in.Pos())
	}
	// havoc
	if !c.HasAssigns && inferredFrame {
		ft.bumpAlloc(st)
	} else if !c.HasAssigns && len(c.Preserves) > 0 {
		ft.havocAllExcept(st, c.Preserves)
	} else if !c.HasAssigns {
		ft.havocAll(st)
	} else {
		if len(c.Preserves) > 0 {
			ft.havocAllExcept(st, c.Preserves)
		}
		for _, a := range c.Assigns {
			func() {
				defer func() {
					if r := recover(); r != nil {
						if ue, ok := r.(unsupportedErr); ok && c.Trusted && strings.Contains(string(ue), "unknown identifier") {
							// a type-level designator of an assumed contract naming a package that is not part
							// of this program (e.g. osmpbf.decoder.cData while verifying annotate): no such heap here
							w.assumptions[fmt.Sprintf("assigns designator %s of %s names nothing in this program (%s)", a.Src, name, string(ue))] = true
							return
						}
						panic(r)
					}
				}()
				ft.havocDesignator(ecPre, a.E, st, pre)
			}()
		}
		if !c.Pure {
			ft.bumpAlloc(st)
		}
	}
	// results
	res := sig.Results()
	envPost := map[string]Term{}
	for k, v := range env {
		envPost[k] = v
	}
	if val != nil {
		ft.havocValue(val, "")
		v := ft.vals[val]
		if c.Pure {
			// a pure callee is a function of its arguments and the heap: the same call in the
			// same state (no write in between) returns the same value
			var kb strings.Builder
			kb.WriteString(name)
			for _, a := range actuals {
				kb.WriteString("|" + a.S)
			}
			var hs []string
			for h, sym := range st.heaps {
				hs = append(hs, h+"="+sym)
			}
			sort.Strings(hs)
			kb.WriteString("|" + strings.Join(hs, "|"))
			key := kb.String()
			if ft.pureCache == nil {
				ft.pureCache = map[string]*Val{}
			}
			if prev, ok := ft.pureCache[key]; ok {
				if v.Tup != nil && prev.Tup != nil && len(v.Tup) == len(prev.Tup) {
					for i := range v.Tup {
						ft.assume(fmt.Sprintf("(= %s %s)", v.Tup[i].T.S, prev.Tup[i].T.S))
					}
				} else if v.Tup == nil && prev.Tup == nil {
					ft.assume(fmt.Sprintf("(= %s %s)", v.T.S, prev.T.S))
				}
			} else {
				ft.pureCache[key] = v
			}
		}
		if v.Tup != nil {
			for i, e := range v.Tup {
				envPost[fmt.Sprintf("result%d", i)] = e.T
				if n := res.At(i).Name(); n != "" && n != "_" {
					envPost[n] = e.T
				}
			}
		} else if res.Len() == 1 {
			envPost["result"] = v.T
			envPost["result0"] = v.T
			if n := res.At(0).Name(); n != "" && n != "_" {
				envPost[n] = v.T
			}
		}
	} else if res.Len() > 0 {
		// deferred call or go: results dropped; still need symbols for ensures
		for i := 0; i < res.Len(); i++ {
			s := w.sortOf(res.At(i).Type())
			t := w.declConst(w.fresh("dropped"), s)
			envPost[fmt.Sprintf("result%d", i)] = t
			if res.Len() == 1 {
				envPost["result"] = t
			}
		}
	}
	if callee != nil && val != nil && (callee.String() == "fmt.Sprintf") {
		if t := ft.sprintfTerm(com); t != "" {
			w.assumptions["fmt.Sprintf with a constant format modelled verb by verb (%s, %d, %v, %0Nd, %t)"] = true
			ft.assume(fmt.Sprintf("(= %s %s)", ft.vals[val].T.S, t))
		}
	}
	ecPost := &evalCtx{w: w, pkg: pkg, env: envPost, st: st, old: pre, lets: c.Lets, opaque: opaqueByName, ft: ft}
	calleeBV := c.Mode == "bv"
	if calleeBV != w.BV && !c.Trusted {
		// contract written for the other integer mode: only its frame is used here
		w.assumptions["postconditions of "+name+" not used (contract is in "+c.Mode+" mode)"] = true
		return
	}
	for _, e := range c.Ensures {
		var t Term
		var evalErr interface{}
		func() {
			defer func() {
				if r := recover(); r != nil {
					if _, ok := r.(unsupportedErr); ok {
						evalErr = r
						return
					}
					panic(r)
				}
			}()
			t = ecPost.evalBool(e.E)
		}()
		if evalErr != nil {
			// e.g. a spec function of another property's spec file: the clause is simply not assumed
			w.assumptions[fmt.Sprintf("postcondition of %s not used here (%v)", name, evalErr)] = true
			if os.Getenv("GOVC_DEBUG") != "" {
				fmt.Fprintf(os.Stderr, "DEBUG: postcondition of %s skipped: %v\n", name, evalErr)
			}
			continue
		}
		ft.assume(t.S)
	}
}

func shortName(full string) string {
	// keep the part after the last '/' to keep obligation names readable
	if i := strings.LastIndex(full, "/"); i >= 0 {
		pre := ""
		if strings.HasPrefix(full, "(*") {
			pre = "(*"
		} else if strings.HasPrefix(full, "(") {
			pre = "("
		}
		return pre + full[i+1:]
	}
	return full
}

// designatorHeaps: heap names an assigns designator may touch (static, for loop mods).
func (ft *funcTrans) designatorHeaps(e Expr, callee *ssa.Function, com *ssa.CallCommon) []string {
	w := ft.w
	// evaluate the designator's base type using a dummy environment of the callee's formals
	var sig *types.Signature
	var pkg *types.Package
	if com.IsInvoke() {
		sig = com.Method.Type().(*types.Signature)
		pkg = com.Method.Pkg()
	} else {
		sig = com.Value.Type().Underlying().(*types.Signature)
		if callee != nil && callee.Pkg != nil {
			pkg = callee.Pkg.Pkg
		} else if callee != nil && callee.Object() != nil {
			pkg = callee.Object().Pkg()
		}
	}
	env := map[string]Term{}
	i := 0
	add := func(name string, t types.Type) {
		s := w.sortOf(t)
		tm := Term{"dummy", s}
		if name != "" {
			env[name] = tm
		}
		env[fmt.Sprintf("arg%d", i)] = tm
		i++
	}
	if r := sig.Recv(); r != nil {
		add(r.Name(), r.Type())
		env["recv"] = env[fmt.Sprintf("arg%d", i-1)]
	}
	for k := 0; k < sig.Params().Len(); k++ {
		pt := sig.Params().At(k).Type()
		ak := k
		if sig.Recv() != nil && !com.IsInvoke() {
			ak = k + 1
		}
		if ak < len(com.Args) {
			if mi, ok := com.Args[ak].(*ssa.MakeInterface); ok {
				if cc := ft.calleeContract(com); cc != nil && strings.Contains(cc.Key, "<"+types.TypeString(mi.X.Type(), nil)+">") {
					pt = mi.X.Type()
				}
			}
		}
		add(sig.Params().At(k).Name(), pt)
	}
	tmp := &State{heaps: map[string]string{}, locals: map[string]string{}, alloc: "0"}
	ec := &evalCtx{w: w, pkg: pkg, env: env, st: tmp}
	return ft.desigHeaps(ec, e)
}

func (ft *funcTrans) desigHeaps(ec *evalCtx, e Expr) []string {
	w := ft.w
	switch x := e.(type) {
	case *EField:
		if h, ok := ft.typeLevelField(ec, x); ok {
			return []string{h}
		}
		if id, ok := x.X.(*EIdent); ok {
			if _, isVar := ec.lookup(id.Name); !isVar {
				if pk := ec.findPkg(id.Name); pk != nil {
					if o, ok := pk.Scope().Lookup(x.Name).(*types.Var); ok {
						return []string{w.globalHeap(pk, o.Name(), w.sortOf(o.Type()))}
					}
				}
				// Type.field: whole field heap
				if gt := ec.resolveType(id.Name); gt != nil {
					ss := w.sortOf(gt)
					for _, fi := range w.fieldsOf(ss) {
						if fi.Name == x.Name {
							return []string{w.fieldHeap(ss, fi)}
						}
					}
				}
			}
		}
		base := ec.eval(x.X)
		gt := base.Sort.Go
		if p, ok := gt.Underlying().(*types.Pointer); ok {
			ss := w.sortOf(p.Elem())
			for _, fi := range w.fieldsOf(ss) {
				if fi.Name == x.Name {
					return []string{w.fieldHeap(ss, fi)}
				}
			}
		}
	case *ESliceAll:
		base := ec.eval(x.X)
		if base.Sort.Kind == KSlice {
			return []string{w.elemHeap(w.sortOf(base.Sort.Go.Underlying().(*types.Slice).Elem()))}
		}
		if base.Sort.Kind == KMap {
			// m[..]: the contents of maps of this type (domain and values; type-level, coarse)
			mt := base.Sort.Go.Underlying().(*types.Map)
			d, v := w.mapHeaps(w.sortOf(mt.Key()), w.sortOf(mt.Elem()))
			return []string{d, v}
		}
	case *EIndex:
		base := ec.eval(x.X)
		if base.Sort.Kind == KSlice {
			return []string{w.elemHeap(w.sortOf(base.Sort.Go.Underlying().(*types.Slice).Elem()))}
		}
	case *EIdent:
		if g, ok := w.P.Spec.Ghosts[x.Name]; ok {
			h := "G_ghost." + x.Name
			w.heapSorts[h] = g
			return []string{h}
		}
		if ec.pkg != nil {
			if o, ok := ec.pkg.Scope().Lookup(x.Name).(*types.Var); ok {
				return []string{w.globalHeap(ec.pkg, o.Name(), w.sortOf(o.Type()))}
			}
		}
	case *EUnary:
		// *p where p is an opaque pointer (address of a struct-valued field): that field of that object
		if id, ok := x.X.(*EIdent); ok && x.Op == "deref" {
			if l, ok := ec.opaque[id.Name]; ok {
				return []string{l.Heap}
			}
			return []string{"?opaque"}
		}
	}
	panic(unsupportedErr("assigns designator " + e.String()))
}

// havocDesignator havocs the locations named by an assigns designator.
// ecPre evaluates in the pre-state; st is updated.
func (ft *funcTrans) havocDesignator(ecPre *evalCtx, e Expr, st, pre *State) {
	w := ft.w
	heaps := ft.desigHeaps(ecPre, e)
	h := heaps[0]
	if h == "?opaque" {
		return
	}
	if sa, ok := e.(*ESliceAll); ok && ecPre.eval(sa.X).Sort.Kind == KMap {
		// m[..]: the contents of this one map (its row of the domain and value heaps)
		m := ecPre.eval(sa.X)
		for _, hh := range heaps {
			oldS := w.heapSym(st, hh)
			nw := ft.newHeapVersion(st, hh)
			srt := w.heapSorts[hh]
			inner := strings.TrimSuffix(strings.TrimPrefix(srt, "(Array Int "), ")")
			fv := w.declConstRaw(w.fresh("hv"), inner)
			w.addFact(fmt.Sprintf("(= %s (store %s %s %s))", nw, oldS, m.S, fv))
		}
		return
	}
	if u, ok := e.(*EUnary); ok && u.Op == "deref" {
		id := u.X.(*EIdent)
		l := ecPre.opaque[id.Name]
		oldS := w.heapSym(st, h)
		nw := ft.newHeapVersion(st, h)
		fv := w.declConstRaw(w.fresh("hv"), l.Root.Name)
		w.addFact(fmt.Sprintf("(= %s (store %s %s %s))", nw, oldS, l.Base, fv))
		// data-structure invariant of the new value
		ft.assumeWellTyped(Term{fv, l.Root}, st, ft.reach[ft.cur])
		return
	}
	old := w.heapSym(st, h)
	switch x := e.(type) {
	case *EField:
		_, isTypeLevel := ft.typeLevelField(ecPre, x)
		if !isTypeLevel {
			if id, ok := x.X.(*EIdent); ok {
				if _, isVar := ecPre.lookup(id.Name); !isVar {
					if _, isLet := ecPre.lets[id.Name]; !isLet {
						isTypeLevel = true // package-level variable
					}
				}
			}
		}
		if isTypeLevel {
			ft.newHeapVersion(st, h)
			return
		}
		base := ecPre.eval(x.X)
		nw := ft.newHeapVersion(st, h)
		srt := w.heapSorts[h]
		// element sort of the heap array
		es := strings.TrimSuffix(strings.TrimPrefix(srt, "(Array Int "), ")")
		fv := w.declConstRaw(w.fresh("hv"), es)
		w.addFact(fmt.Sprintf("(= %s (store %s %s %s))", nw, old, base.S, fv))
	case *ESliceAll:
		base := ecPre.eval(x.X)
		if base.Sort.Kind == KMap {
			ft.newHeapVersion(st, h)
			return
		}
		nw := ft.newHeapVersion(st, h)
		srt := w.heapSorts[h]
		inner := strings.TrimSuffix(strings.TrimPrefix(srt, "(Array Int "), ")")
		fv := w.declConstRaw(w.fresh("hv"), inner)
		w.addFact(fmt.Sprintf("(= %s (store %s (s-arr %s) %s))", nw, old, base.S, fv))
	case *EIndex:
		base := ecPre.eval(x.X)
		idx := w.toIdx(ecPre.concrete(ecPre.eval(x.I)))
		nw := ft.newHeapVersion(st, h)
		es := w.sortOf(base.Sort.Go.Underlying().(*types.Slice).Elem())
		fv := w.declConstRaw(w.fresh("hv"), es.Name)
		w.addFact(fmt.Sprintf("(= %s (store %s (s-arr %s) (store (select %s (s-arr %s)) %s %s)))", nw, old, base.S, old, base.S, w.sidx("(s-off "+base.S+")", idx), fv))
	default:
		ft.newHeapVersion(st, h)
	}
}

func (ft *funcTrans) builtin(bi *ssa.Builtin, com *ssa.CallCommon, val *ssa.Call) {
	w := ft.w
	st := ft.curSt
	switch bi.Name() {
	case "len", "cap":
		a := ft.termOf(com.Args[0])
		is := w.goInt()
		switch a.Sort.Kind {
		case KSlice:
			ft.define(val, Term{fmt.Sprintf("(s-%s %s)", bi.Name(), a.S), is})
		case KString:
			ft.define(val, w.fromMathInt("(str.len "+a.S+")", is))
		case KMap:
			w.declFun("map_len", []string{"Int"}, "Int")
			ft.define(val, w.fromMathInt("(map_len "+a.S+")", is))
		case KChan:
			ft.havocValue(val, "")
		default:
			if at, ok := com.Args[0].Type().Underlying().(*types.Array); ok {
				ft.define(val, w.intLit64(at.Len(), is))
				return
			}
			if pt, ok := com.Args[0].Type().Underlying().(*types.Pointer); ok {
				if at, ok := pt.Elem().Underlying().(*types.Array); ok {
					ft.define(val, w.intLit64(at.Len(), is))
					return
				}
			}
			panic(unsupportedErr("len of " + a.Sort.Name))
		}
	case "append":
		ft.appendOp(com, val)
	case "copy":
		// havoc destination elements
		d := ft.termOf(com.Args[0])
		es := w.sortOf(com.Args[0].Type().Underlying().(*types.Slice).Elem())
		h := w.elemHeap(es)
		old := w.heapSym(st, h)
		nw := ft.newHeapVersion(st, h)
		fv := w.declConstRaw(w.fresh("hv"), "(Array "+w.idxSortName()+" "+es.Name+")")
		w.addFact(fmt.Sprintf("(= %s (store %s (s-arr %s) %s))", nw, old, d.S, fv))
		w.unsupported = append(w.unsupported, ft.fn.String()+": copy() modelled as havoc of destination array")
		if val != nil {
			ft.havocValue(val, "")
		}
	case "delete":
		m := ft.termOf(com.Args[0])
		mt := com.Args[0].Type().Underlying().(*types.Map)
		ks, vs := w.sortOf(mt.Key()), w.sortOf(mt.Elem())
		hd, _ := w.mapHeaps(ks, vs)
		k := ft.coerceTo(ft.termOf(com.Args[1]), ks)
		od := w.heapSym(st, hd)
		nd := ft.newHeapVersion(st, hd)
		w.addFact(fmt.Sprintf("(= %s (store %s %s (store (select %s %s) %s false)))", nd, od, m.S, od, m.S, k.S))
	case "print", "println":
	case "close":
	case "min", "max":
		a, b := ft.termOf(com.Args[0]), ft.termOf(com.Args[1])
		op := "<"
		if bi.Name() == "max" {
			op = ">"
		}
		c := w.arith(op, a, b)
		ft.define(val, Term{fmt.Sprintf("(ite %s %s %s)", c.S, a.S, b.S), a.Sort})
	default:
		panic(unsupportedErr("builtin " + bi.Name()))
	}
}

// appendOp models append(s, t...).
func (ft *funcTrans) appendOp(com *ssa.CallCommon, val *ssa.Call) {
	w := ft.w
	st := ft.curSt
	s := ft.termOf(com.Args[0])
	s = ft.coerceTo(s, w.sortOf(val.Type()))
	if _, isStr := com.Args[1].Type().Underlying().(*types.Basic); isStr {
		// append([]byte, string...)
		ft.havocAllOf(st, w.elemHeap(w.sortOf(types.Typ[types.Byte])))
		ft.havocValue(val, "append of string bytes")
		return
	}
	t := ft.termOf(com.Args[1])
	t = ft.coerceTo(t, w.sortOf(val.Type()))
	es := w.sortOf(val.Type().Underlying().(*types.Slice).Elem())
	h := w.elemHeap(es)
	E := w.heapSym(st, h)
	ix := w.idxSortName()
	sl, sc, so, sa := "(s-len "+s.S+")", "(s-cap "+s.S+")", "(s-off "+s.S+")", "(s-arr "+s.S+")"
	tl, to, ta := "(s-len "+t.S+")", "(s-off "+t.S+")", "(s-arr "+t.S+")"
	newLen := w.iadd(sl, tl)
	fits := w.ile(newLen, sc)
	// fresh array for the reallocating case
	r := w.declConstRaw(w.fresh("ref"), "Int")
	w.addFact(fmt.Sprintf("(= %s (+ %s 1))", r, st.alloc))
	na := w.declConstRaw(w.fresh("alloc"), "Int")
	w.addFact(fmt.Sprintf("(= %s (ite %s %s %s))", na, fits, st.alloc, r))
	st.alloc = na
	ncap := w.declConstRaw(w.fresh("cap"), ix)
	w.addFact(w.ile(newLen, ncap))
	// the result and the new heap are introduced by guarded equations rather than ite terms: solvers
	// eliminate "x = ite(..)" definitions and lift the ite out of selects, which destroys the
	// quantifier patterns that mention the result
	ft.havocValue(val, "")
	resS := ft.vals[val].T.S
	w.addFact(fmt.Sprintf("(=> %s (= %s (mk-slice %s %s %s %s)))", fits, resS, sa, so, newLen, sc))
	w.addFact(fmt.Sprintf("(=> (not %s) (= %s (mk-slice %s %s %s %s)))", fits, resS, r, w.ilit(0), newLen, ncap))
	// contents
	nw := ft.newHeapVersion(st, h)
	inPlace := w.declConstRaw(w.fresh("arrIn"), "(Array "+ix+" "+es.Name+")")
	moved := w.declConstRaw(w.fresh("arrNew"), "(Array "+ix+" "+es.Name+")")
	w.addFact(fmt.Sprintf("(=> %s (= %s (store %s %s %s)))", fits, nw, E, sa, inPlace))
	w.addFact(fmt.Sprintf("(=> (not %s) (= %s (store %s %s %s)))", fits, nw, E, r, moved))
	oldArr := fmt.Sprintf("(select %s %s)", E, sa)
	srcArr := fmt.Sprintf("(select %s %s)", E, ta)
	if isSingletonArg(com.Args[1]) {
		w.addFact(fmt.Sprintf("(= %s %s)", tl, w.ilit(1)))
		w.addFact(fmt.Sprintf("(= %s (store %s %s (select %s %s)))", inPlace, oldArr, w.iadd(so, sl), srcArr, to))
		if !w.BV {
			// derived facts in the shape contracts use (element k of the result, addressed with sidx):
			// the old elements are those of s in the heap before the temporary varargs array existed
			// (that array is fresh, so s's array is the same there), the last one is the appended value
			if eb, ok := ft.varargBefore[com.Args[1].(*ssa.Slice).X]; ok {
				resT := ft.vals[val].T.S
				ra, ro := "(s-arr "+resT+")", "(s-off "+resT+")"
				same := fmt.Sprintf("(= (select %s %s) (select %s %s))", E, sa, eb, sa)
				w.addFact(fmt.Sprintf("(=> %s (forall ((j!c %s)) (! (=> (and (<= 0 j!c) (< j!c %s)) (= (select (select %s %s) (sidx %s j!c)) (select (select %s %s) (sidx %s j!c)))) :pattern ((select (select %s %s) (sidx %s j!c))))))",
					same, ix, sl, nw, ra, ro, eb, sa, so, nw, ra, ro))
				w.addFact(fmt.Sprintf("(= (select (select %s %s) (sidx %s %s)) (select %s %s))", nw, ra, ro, sl, srcArr, to))
			}
		}
	} else {
		j := "j!a"
		start := w.iadd(so, sl)
		cond := fmt.Sprintf("(and %s %s)", w.ile(start, j), w.ilt(j, w.iadd(start, tl)))
		w.addFact(fmt.Sprintf("(forall ((%s %s)) (! (= (select %s %s) (ite %s (select %s %s) (select %s %s))) :pattern ((select %s %s))))",
			j, ix, inPlace, j, cond, srcArr, w.iadd(to, w.isub(j, start)), oldArr, j, inPlace, j))
	}
	// moved: [0,len) copy of s, then t, zero elsewhere unspecified
	{
		j := "j!b"
		c1 := fmt.Sprintf("(and %s %s)", w.ile(w.ilit(0), j), w.ilt(j, sl))
		c2 := fmt.Sprintf("(and %s %s)", w.ile(sl, j), w.ilt(j, newLen))
		w.addFact(fmt.Sprintf("(forall ((%s %s)) (! (and (=> %s (= (select %s %s) (select %s %s))) (=> %s (= (select %s %s) (select %s %s)))) :pattern ((select %s %s))))",
			j, ix, c1, moved, j, oldArr, w.sidx(so, j), c2, moved, j, srcArr, w.iadd(to, w.isub(j, sl)), moved, j))
	}
}

// isSingletonArg: the appended slice is syntactically a one-element array literal
// (the varargs form append(s, x)).
func isSingletonArg(v ssa.Value) bool {
	sl, ok := v.(*ssa.Slice)
	if !ok || sl.Low != nil || sl.High != nil || sl.Max != nil {
		return false
	}
	al, ok := sl.X.(*ssa.Alloc)
	if !ok {
		return false
	}
	at, ok := al.Type().(*types.Pointer).Elem().Underlying().(*types.Array)
	return ok && at.Len() == 1
}

func (ft *funcTrans) havocAllOf(st *State, heap string) {
	ft.newHeapVersion(st, heap)
}

// ret handles a return: postconditions and frame.
func (ft *funcTrans) ret(x *ssa.Return) {
	w := ft.w
	if ft.c == nil {
		return
	}
	st := ft.curSt
	env := map[string]Term{}
	for k, v := range ft.env {
		env[k] = v
	}
	res := ft.fn.Signature.Results()
	for i, r := range x.Results {
		t := ft.termOf(r)
		t = ft.coerceTo(t, w.sortOf(res.At(i).Type()))
		env[fmt.Sprintf("result%d", i)] = t
		if len(x.Results) == 1 {
			env["result"] = t
		}
		if n := res.At(i).Name(); n != "" && n != "_" {
			env[n] = t
		}
	}
	ec := &evalCtx{w: w, pkg: ft.pkgTypes(), env: env, st: st, old: ft.entry, lets: ft.lets(), cells: ft.envCells, ft: ft}
	where := posStr(ft.p.SSA.Fset, x.Pos())
	{
		o := ft.obligation("cover", fmt.Sprintf("reach-return@b%d", ft.cur.Index), "return is reachable", "true")
		o.Cover = true
		o.Where = where
		w.popFact()
	}
	{
		// must-fail probe with every fact (quantified ones too) through the same pipeline as real
		// obligations: if `false` can be proved here, everything proved at this return is vacuous
		o := ft.obligation("probe", fmt.Sprintf("vacuity-probe@b%d", ft.cur.Index), "the assumptions on the path to this return are consistent (false is not provable)", "false")
		o.Probe = true
		o.Where = where
		w.popFact()
	}
	for i, e := range ft.c.Ensures {
		t := ec.evalBool(e.E)
		o := ft.obligation("ensures", fmt.Sprintf("ensures%d@b%d", i+1, ft.cur.Index), e.Src, t.S)
		o.Where = where
	}
	if len(ft.c.RetReqs) > 0 {
		lc := ft.localCtx(st)
		for k, v := range env {
			if strings.HasPrefix(k, "result") {
				lc.env[k] = v
			}
		}
		for i, e := range ft.c.RetReqs {
			var t Term
			skipped := false
			func() {
				defer func() {
					if r := recover(); r != nil {
						if ue, ok := r.(unsupportedErr); ok {
							// a variable of the clause is not declared (or another one has its name) at this
							// return: nothing to require here; the clause must be applicable at some return
							if ft.retreqErr == nil {
								ft.retreqErr = map[int]string{}
							}
							ft.retreqErr[i] = string(ue)
							if os.Getenv("GOVC_DEBUG") != "" {
								fmt.Fprintf(os.Stderr, "DEBUG: retreq%d skipped at %s: %s\n", i+1, where, string(ue))
							}
							ft.notes = append(ft.notes, fmt.Sprintf("retreq%d not applicable at the return at %s (%s)", i+1, where, string(ue)))
							skipped = true
							return
						}
						panic(r)
					}
				}()
				t = lc.evalBool(e.E)
			}()
			if skipped {
				continue
			}
			if ft.retreqOK == nil {
				ft.retreqOK = map[int]int{}
			}
			ft.retreqOK[i]++
			o := ft.obligation("retreq", fmt.Sprintf("retreq%d@b%d", i+1, ft.cur.Index), e.Src, t.S)
			o.Where = where
		}
	}
	if ft.c.HasAssigns {
		ft.frame(st, where)
	}
}

// frame obligations: every heap changed on this path differs from its entry
// version only at locations permitted by the assigns clause or freshly allocated.
type frameAllow struct {
	ref string
	idx string // "" = whole
}

type frameSpec struct {
	allowed map[string][]frameAllow
	whole   map[string]bool
}

func (ft *funcTrans) frameSpecOf() *frameSpec {
	if ft.fspec != nil {
		return ft.fspec
	}
	w := ft.w
	ecPre := &evalCtx{w: w, pkg: ft.pkgTypes(), env: ft.env, st: ft.entry, old: ft.entry, lets: ft.lets(), cells: ft.envCells, ft: ft}
	fs := &frameSpec{allowed: map[string][]frameAllow{}, whole: map[string]bool{}}
	for _, a := range ft.c.Assigns {
		hs := ft.desigHeaps(ecPre, a.E)
		h := hs[0]
		switch x := a.E.(type) {
		case *EField:
			_, isTypeLevel := ft.typeLevelField(ecPre, x)
			if !isTypeLevel {
				if id, ok := x.X.(*EIdent); ok {
					if _, isVar := ecPre.lookup(id.Name); !isVar {
						if _, isLet := ecPre.lets[id.Name]; !isLet {
							isTypeLevel = true
						}
					}
				}
			}
			if isTypeLevel {
				fs.whole[h] = true
			} else {
				fs.allowed[h] = append(fs.allowed[h], frameAllow{ref: ecPre.eval(x.X).S})
			}
		case *ESliceAll:
			if ecPre.eval(x.X).Sort.Kind == KMap {
				for _, hh := range hs {
					fs.whole[hh] = true
				}
				break
			}
			fs.allowed[h] = append(fs.allowed[h], frameAllow{ref: "(s-arr " + ecPre.eval(x.X).S + ")"})
		case *EIndex:
			b := ecPre.eval(x.X)
			idx := w.toIdx(ecPre.concrete(ecPre.eval(x.I)))
			fs.allowed[h] = append(fs.allowed[h], frameAllow{ref: "(s-arr " + b.S + ")", idx: w.sidx("(s-off "+b.S+")", idx)})
		default:
			fs.whole[h] = true
		}
	}
	ft.fspec = fs
	return fs
}

// frameGoal returns the formula "heap h in state st agrees with the entry
// state outside the assigns clause and outside fresh memory", or "" if
// nothing needs to be shown.
func (ft *funcTrans) frameGoal(st *State, h string) string {
	w := ft.w
	fs := ft.frameSpecOf()
	if fs.whole[h] {
		return ""
	}
	cur := w.heapSym(st, h)
	ent := w.heapSym(ft.entry, h)
	if cur == ent {
		return ""
	}
	if strings.HasPrefix(h, "G_") {
		return fmt.Sprintf("(= %s %s)", cur, ent)
	}
	if strings.HasPrefix(h, "E_") {
		var ex []string
		for _, a := range fs.allowed[h] {
			if a.idx == "" {
				ex = append(ex, fmt.Sprintf("(= r!f %s)", a.ref))
			} else {
				ex = append(ex, fmt.Sprintf("(and (= r!f %s) (= j!f %s))", a.ref, a.idx))
			}
		}
		exc := "false"
		if len(ex) > 0 {
			exc = "(or " + strings.Join(ex, " ") + ")"
		}
		return fmt.Sprintf("(forall ((r!f Int) (j!f %s)) (! (=> (and (< 0 r!f) (<= r!f %s) (not %s)) (= (select (select %s r!f) j!f) (select (select %s r!f) j!f))) :pattern ((select (select %s r!f) j!f))))",
			w.idxSortName(), ft.entry.alloc, exc, cur, ent, cur)
	}
	var ex []string
	for _, a := range fs.allowed[h] {
		ex = append(ex, fmt.Sprintf("(= r!f %s)", a.ref))
	}
	exc := "false"
	if len(ex) > 0 {
		exc = "(or " + strings.Join(ex, " ") + ")"
	}
	return fmt.Sprintf("(forall ((r!f Int)) (! (=> (and (< 0 r!f) (<= r!f %s) (not %s)) (= (select %s r!f) (select %s r!f))) :pattern ((select %s r!f))))",
		ft.entry.alloc, exc, cur, ent, cur)
}

func (ft *funcTrans) frame(st *State, where string) {
	var names []string
	for h := range st.heaps {
		names = append(names, h)
	}
	sortStrings(names)
	for _, h := range names {
		goal := ft.frameGoal(st, h)
		if goal == "" {
			continue
		}
		o := ft.obligation("frame", fmt.Sprintf("frame.%s@b%d", h, ft.cur.Index), "assigns clause covers writes to "+h, goal)
		o.Where = where
	}
}

func sortStrings(s []string) {
	for i := 1; i < len(s); i++ {
		for j := i; j > 0 && s[j] < s[j-1]; j-- {
			s[j], s[j-1] = s[j-1], s[j]
		}
	}
}

// typeLevelField recognises designators "T.f" and "pkg.T.f" (the whole field heap).
func (ft *funcTrans) typeLevelField(ec *evalCtx, x *EField) (string, bool) {
	w := ft.w
	var tname string
	switch b := x.X.(type) {
	case *EIdent:
		if _, isVar := ec.lookup(b.Name); isVar {
			return "", false
		}
		if _, isLet := ec.lets[b.Name]; isLet {
			return "", false
		}
		tname = b.Name
	case *EField:
		id, ok := b.X.(*EIdent)
		if !ok {
			return "", false
		}
		if _, isVar := ec.lookup(id.Name); isVar {
			return "", false
		}
		if ec.findPkg(id.Name) == nil {
			return "", false
		}
		tname = id.Name + "." + b.Name
	default:
		return "", false
	}
	gt := ec.resolveType(tname)
	if gt == nil {
		return "", false
	}
	ss := w.sortOf(gt)
	if ss.Kind != KStruct {
		return "", false
	}
	for _, fi := range w.fieldsOf(ss) {
		if fi.Name == x.Name {
			return w.fieldHeap(ss, fi), true
		}
	}
	return "", false
}

// localCtx: evaluation context for clauses about the function's own variables
// at the current program point (source names resolve through dominating
// definitions, like in loop invariants).
func (ft *funcTrans) localCtx(st *State) *evalCtx {
	env := ft.namesAt(ft.cur)
	cells := ft.localCells(ft.cur)
	for name := range cells {
		if _, captured := ft.envCells[name]; !captured {
			delete(env, name) // an address-taken local shadows an earlier variable of the same name
		}
	}
	for name, l := range cells {
		if (l.Kind == LCell || l.Kind == LObj) && len(l.Path) == 0 {
			if _, ok := env["&"+name]; !ok {
				env["&"+name] = Term{l.Base, &Sort{Name: "Int", Kind: KRef}}
			}
		}
	}
	return &evalCtx{w: ft.w, pkg: ft.pkgTypes(), env: env, st: st, old: ft.entry, lets: ft.lets(), cells: cells, ft: ft}
}

// localCells: captured variables plus address-taken local variables (x whose &x is used) declared
// in blocks dominating b (or in b): the name denotes the variable's content in the state at hand.
func (ft *funcTrans) localCells(b *ssa.BasicBlock) map[string]*Loc {
	cells := map[string]*Loc{}
	for k, v := range ft.envCells {
		cells[k] = v
	}
	for _, blk := range ft.fn.Blocks {
		if blk != b && !blk.Dominates(b) {
			continue
		}
		for _, in := range blk.Instrs {
			if al, isAlloc := in.(*ssa.Alloc); isAlloc && al.Heap {
				// a named local or parameter that escapes (captured by a closure, address taken)
				switch al.Comment {
				case "", "complit", "new", "varargs", "makeslice", "slicelit", "makemap", "makechan":
				default:
					if token.IsIdentifier(al.Comment) {
						if v, ok := ft.vals[al]; ok && v.L == nil && v.Bad == "" && v.Tup == nil {
							cells[al.Comment] = ft.locOfRef(v.T.S, al.Type().(*types.Pointer).Elem())
						}
					}
				}
				continue
			}
			dr, ok := in.(*ssa.DebugRef)
			if !ok || !dr.IsAddr {
				continue
			}
			id, ok := dr.Expr.(*ast.Ident)
			if !ok {
				continue
			}
			al, ok := dr.X.(*ssa.Alloc)
			if !ok {
				continue
			}
			v, ok := ft.vals[al]
			if !ok {
				continue
			}
			if v.L != nil {
				cells[id.Name] = v.L
			} else if v.Bad == "" && v.Tup == nil {
				cells[id.Name] = ft.locOfRef(v.T.S, al.Type().(*types.Pointer).Elem())
			}
		}
	}
	return cells
}

// appendReqs: "callreq append : e" / "callreq append#k : e" put an obligation on every (on the k-th,
// in source order) append of the function; arg0 is the slice appended to, arg1 the appended element
// for the one-element form append(s, x).
func (ft *funcTrans) appendReqs(com *ssa.CallCommon, in ssa.CallInstruction) {
	if ft.appendSites == nil {
		for _, b := range ft.fn.Blocks {
			for _, i2 := range b.Instrs {
				if c2, ok := i2.(ssa.CallInstruction); ok {
					if bi, ok := c2.Common().Value.(*ssa.Builtin); ok && bi.Name() == "append" {
						ft.appendSites = append(ft.appendSites, c2.Pos())
					}
				}
			}
		}
		sort.Slice(ft.appendSites, func(i, j int) bool { return ft.appendSites[i] < ft.appendSites[j] })
	}
	ord := 0
	for i, p := range ft.appendSites {
		if p == in.Pos() {
			ord = i + 1
		}
	}
	for k, cr := range ft.c.CallReqs {
		if cr.Callee != "append" && cr.Callee != fmt.Sprintf("append#%d", ord) {
			continue
		}
		ec := ft.localCtx(ft.curSt)
		if v := ft.valOf(com.Args[0]); v.L == nil && v.Tup == nil && v.Bad == "" {
			ec.env["arg0"] = v.T
		}
		if sl, ok := com.Args[1].(*ssa.Slice); ok && isSingletonArg(com.Args[1]) {
			// the element stored into the one-element varargs array
			if al, ok := sl.X.(*ssa.Alloc); ok {
				for _, ref := range *al.Referrers() {
					if ia, ok := ref.(*ssa.IndexAddr); ok {
						for _, r2 := range *ia.Referrers() {
							if st, ok := r2.(*ssa.Store); ok && st.Addr == ia {
								if v := ft.valOf(st.Val); v.L == nil && v.Tup == nil && v.Bad == "" {
									ec.env["arg1"] = v.T
								}
							}
						}
					}
				}
			}
		}
		t := ec.evalBool(cr.C.E)
		o := ft.obligation("callreq", fmt.Sprintf("append%d.callreq%d", ord, k+1), cr.C.Src, t.S)
		o.Where = posStr(ft.p.SSA.Fset, in.Pos())
	}
}
