package main

// Sorts, terms and the per-query "world" (declarations, facts).

import (
	"fmt"
	"go/types"
	"math/big"
	"sort"
	"strings"
)

type SortKind int

const (
	KInt SortKind = iota
	KBool
	KString
	KReal
	KRef
	KSlice
	KStruct
	KIface
	KArray
	KMap
	KFunc
	KChan
	KUntypedInt
	KUntypedNil
	KOther // spec-only sort
)

type Sort struct {
	Name   string // SMT text of the sort
	Kind   SortKind
	Go     types.Type
	Bits   int
	Signed bool
	Elem   *Sort // KArray value element
}

type Term struct {
	S    string
	Sort *Sort
}

func (t Term) String() string { return t.S }

var (
	sortBool       = &Sort{Name: "Bool", Kind: KBool}
	sortString     = &Sort{Name: "String", Kind: KString}
	sortReal       = &Sort{Name: "Real", Kind: KReal}
	sortUntypedInt = &Sort{Name: "Int", Kind: KUntypedInt}
	sortNil        = &Sort{Name: "Int", Kind: KUntypedNil}
)

// World holds everything that goes into SMT queries for one function.
type World struct {
	P  *Program
	BV bool

	sortDecls    []string
	sortDeclared map[string]bool
	structSorts  map[string]*Sort
	structFields map[string][]fieldInfo // by sort name
	funDecls     []string
	funDeclared  map[string]bool
	constDecls   []string
	constSet     map[string]bool
	facts        []string
	factBlock    []int // block index that generated the fact (-1 = global)
	factTag      []string
	curBlock     int
	curTag       string
	typeIDs      map[string]int
	heapSorts    map[string]string // heap name -> SMT sort
	heapValSort  map[string]*Sort  // heap name -> sort of the stored value
	counter      int
	assumptions  map[string]bool // trusted things actually used
	unsupported  []string
}

type fieldInfo struct {
	Name string
	Acc  string // accessor symbol
	Sort *Sort
	Go   types.Type
}

func newWorld(p *Program, bv bool) *World {
	w := &World{P: p, BV: bv,
		sortDeclared: map[string]bool{}, structSorts: map[string]*Sort{}, structFields: map[string][]fieldInfo{},
		funDeclared: map[string]bool{}, constSet: map[string]bool{}, typeIDs: map[string]int{},
		heapSorts: map[string]string{}, heapValSort: map[string]*Sort{}, assumptions: map[string]bool{}, curBlock: -1}
	w.sortDecls = append(w.sortDecls,
		"(declare-datatypes ((Slice 0)) (((mk-slice (s-arr Int) (s-off Int) (s-len Int) (s-cap Int)))))",
		"(declare-datatypes ((Iface 0)) (((mk-iface (i-dyn Int) (i-val Int)))))",
		"(declare-fun is-ptr-dyn (Int) Bool)")
	return w
}

func (w *World) fresh(prefix string) string {
	w.counter++
	return fmt.Sprintf("%s!%d", prefix, w.counter)
}

func q(name string) string {
	// quote symbol if needed
	simple := true
	for _, c := range name {
		if !(c == '_' || c == '.' || c == '!' || c == '$' || (c >= '0' && c <= '9') || (c >= 'a' && c <= 'z') || (c >= 'A' && c <= 'Z')) {
			simple = false
			break
		}
	}
	if simple && len(name) > 0 && !(name[0] >= '0' && name[0] <= '9') {
		return name
	}
	return "|" + strings.NewReplacer("|", "!", "\\", "!").Replace(name) + "|"
}

func (w *World) declConst(name string, s *Sort) Term {
	if !w.constSet[name] {
		w.constSet[name] = true
		w.constDecls = append(w.constDecls, fmt.Sprintf("(declare-const %s %s)", q(name), s.Name))
	}
	return Term{q(name), s}
}

func (w *World) declConstRaw(name, sortName string) string {
	if !w.constSet[name] {
		w.constSet[name] = true
		w.constDecls = append(w.constDecls, fmt.Sprintf("(declare-const %s %s)", q(name), sortName))
	}
	return q(name)
}

func (w *World) declFun(name string, args []string, ret string) {
	if w.funDeclared[name] {
		return
	}
	w.funDeclared[name] = true
	w.funDecls = append(w.funDecls, fmt.Sprintf("(declare-fun %s (%s) %s)", q(name), strings.Join(args, " "), ret))
}

func (w *World) addFact(f string) {
	w.facts = append(w.facts, f)
	w.factBlock = append(w.factBlock, w.curBlock)
	w.factTag = append(w.factTag, w.curTag)
}

func (w *World) intSort(bits int, signed bool, gt types.Type) *Sort {
	if w.BV {
		return &Sort{Name: fmt.Sprintf("(_ BitVec %d)", bits), Kind: KInt, Go: gt, Bits: bits, Signed: signed}
	}
	return &Sort{Name: "Int", Kind: KInt, Go: gt, Bits: bits, Signed: signed}
}

func isNamed(t types.Type, pkg, name string) bool {
	n, ok := t.(*types.Named)
	if !ok {
		return false
	}
	o := n.Obj()
	return o.Name() == name && o.Pkg() != nil && o.Pkg().Path() == pkg
}

func shortPkg(p *types.Package) string {
	if p == nil {
		return ""
	}
	return p.Name()
}

func (w *World) sortOf(t types.Type) *Sort {
	switch u := t.(type) {
	case *types.Alias:
		return w.sortOf(types.Unalias(u))
	case *types.Named:
		if isNamed(u, "time", "Time") {
			return w.intSort(64, true, t)
		}
		if st, ok := u.Underlying().(*types.Struct); ok {
			name := "S_" + shortPkg(u.Obj().Pkg()) + "_" + u.Obj().Name()
			return w.structSort(name, st, t)
		}
		s := *w.sortOf(u.Underlying())
		s.Go = t
		return &s
	case *types.Basic:
		switch u.Kind() {
		case types.Bool, types.UntypedBool:
			return &Sort{Name: "Bool", Kind: KBool, Go: t}
		case types.String, types.UntypedString:
			return &Sort{Name: "String", Kind: KString, Go: t}
		case types.Float32, types.Float64, types.UntypedFloat:
			return &Sort{Name: "Real", Kind: KReal, Go: t}
		case types.Int8:
			return w.intSort(8, true, t)
		case types.Int16:
			return w.intSort(16, true, t)
		case types.Int32, types.UntypedRune:
			return w.intSort(32, true, t)
		case types.Int, types.Int64, types.UntypedInt:
			return w.intSort(64, true, t)
		case types.Uint8:
			return w.intSort(8, false, t)
		case types.Uint16:
			return w.intSort(16, false, t)
		case types.Uint32:
			return w.intSort(32, false, t)
		case types.Uint, types.Uint64, types.Uintptr:
			return w.intSort(64, false, t)
		case types.UntypedNil:
			return sortNil
		case types.UnsafePointer:
			return &Sort{Name: "Int", Kind: KRef, Go: t}
		}
	case *types.Pointer:
		return &Sort{Name: "Int", Kind: KRef, Go: t}
	case *types.Slice:
		return &Sort{Name: "Slice", Kind: KSlice, Go: t}
	case *types.Struct:
		name := fmt.Sprintf("S_anon_%d", w.anonID(u.String()))
		return w.structSort(name, u, t)
	case *types.Array:
		es := w.sortOf(u.Elem())
		return &Sort{Name: "(Array " + w.idxSortName() + " " + es.Name + ")", Kind: KArray, Go: t, Elem: es}
	case *types.Interface:
		return &Sort{Name: "Iface", Kind: KIface, Go: t}
	case *types.Map:
		return &Sort{Name: "Int", Kind: KMap, Go: t}
	case *types.Signature:
		return &Sort{Name: "Int", Kind: KFunc, Go: t}
	case *types.Chan:
		return &Sort{Name: "Int", Kind: KChan, Go: t}
	case *types.TypeParam:
		return &Sort{Name: "Int", Kind: KOther, Go: t}
	}
	panic(unsupportedErr(fmt.Sprintf("sort of type %v (%T)", t, t)))
}

func (w *World) anonID(s string) int {
	k := "anon:" + s
	if id, ok := w.typeIDs[k]; ok {
		return id
	}
	id := len(w.typeIDs) + 1
	w.typeIDs[k] = id
	return id
}

func (w *World) structSort(name string, st *types.Struct, gt types.Type) *Sort {
	if s, ok := w.structSorts[name]; ok {
		return s
	}
	s := &Sort{Name: name, Kind: KStruct, Go: gt}
	w.structSorts[name] = s // before recursing (pointers are Int so no real recursion)
	var fis []fieldInfo
	var parts []string
	for i := 0; i < st.NumFields(); i++ {
		f := st.Field(i)
		fs := w.sortOf(f.Type())
		acc := name + "_f_" + f.Name()
		if f.Name() == "_" || f.Name() == "" {
			acc = fmt.Sprintf("%s_f_blank%d", name, i)
		}
		fis = append(fis, fieldInfo{f.Name(), acc, fs, f.Type()})
		parts = append(parts, fmt.Sprintf("(%s %s)", q(acc), fs.Name))
	}
	w.structFields[name] = fis
	w.sortDecls = append(w.sortDecls, fmt.Sprintf("(declare-datatypes ((%s 0)) (((%s %s))))", q(name), q("mk_"+name), strings.Join(parts, " ")))
	return s
}

func (w *World) fieldsOf(s *Sort) []fieldInfo { return w.structFields[s.Name] }

// typeID gives a stable small integer for a dynamic type.
func (w *World) typeID(t types.Type) int {
	k := types.TypeString(t, nil)
	if id, ok := w.typeIDs[k]; ok {
		return id
	}
	id := len(w.typeIDs) + 1
	w.typeIDs[k] = id
	if _, isPtr := t.Underlying().(*types.Pointer); isPtr {
		// emitted with the declarations (not as a fact): it must be visible to obligations whose
		// own clause mentions the type first
		w.funDecls = append(w.funDecls, fmt.Sprintf("(assert (is-ptr-dyn %d))", id))
	}
	return id
}

// literals

func (w *World) intLit(v *big.Int, s *Sort) Term {
	if w.BV && s.Kind == KInt {
		m := new(big.Int).Lsh(big.NewInt(1), uint(s.Bits))
		x := new(big.Int).Mod(v, m)
		return Term{fmt.Sprintf("(_ bv%s %d)", x.String(), s.Bits), s}
	}
	if v.Sign() < 0 {
		return Term{"(- " + new(big.Int).Neg(v).String() + ")", s}
	}
	return Term{v.String(), s}
}

func (w *World) intLit64(v int64, s *Sort) Term { return w.intLit(big.NewInt(v), s) }

func strLit(s string) string {
	var sb strings.Builder
	sb.WriteByte('"')
	for _, r := range s {
		switch {
		case r == '"':
			sb.WriteString("\"\"")
		case r < 32 || r > 126 || r == '\\':
			sb.WriteString(fmt.Sprintf("\\u{%x}", r))
		default:
			sb.WriteRune(r)
		}
	}
	sb.WriteByte('"')
	return sb.String()
}

func (w *World) zero(s *Sort) Term {
	switch s.Kind {
	case KInt:
		return w.intLit64(0, s)
	case KUntypedInt:
		return Term{"0", s}
	case KBool:
		return Term{"false", s}
	case KString:
		return Term{"\"\"", s}
	case KReal:
		return Term{"0.0", s}
	case KRef, KMap, KFunc, KChan, KUntypedNil, KOther:
		return Term{"0", s}
	case KSlice:
		z := w.ilit(0)
		return Term{"(mk-slice 0 " + z + " " + z + " " + z + ")", s}
	case KIface:
		return Term{"(mk-iface 0 0)", s}
	case KStruct:
		var parts []string
		for _, f := range w.fieldsOf(s) {
			parts = append(parts, w.zero(f.Sort).S)
		}
		if len(parts) == 0 {
			return Term{q("mk_" + s.Name), s}
		}
		return Term{"(" + q("mk_"+s.Name) + " " + strings.Join(parts, " ") + ")", s}
	case KArray:
		return Term{"((as const " + s.Name + ") " + w.zero(s.Elem).S + ")", s}
	}
	panic(unsupportedErr("zero of " + s.Name))
}

// heap naming

func sanitize(s string) string {
	r := strings.NewReplacer("(", "", ")", "", " ", "_", "|", "")
	return r.Replace(s)
}

func (w *World) fieldHeap(structSort *Sort, fi fieldInfo) string {
	name := "H_" + strings.TrimPrefix(structSort.Name, "S_") + "." + fi.Name
	w.heapSorts[name] = "(Array Int " + fi.Sort.Name + ")"
	w.heapValSort[name] = fi.Sort
	return name
}

func (w *World) elemHeap(es *Sort) string {
	name := "E_" + sanitize(es.Name)
	// element heaps are separated by Go element type: slices of different element
	// types never share a backing array
	switch es.Kind {
	case KInt, KRef, KChan, KMap, KFunc, KBool, KString, KReal, KIface:
		if es.Go != nil {
			name = "E_" + sanitize(es.Name) + "." + goTypeKey(es.Go)
		}
	}
	w.heapSorts[name] = "(Array Int (Array " + w.idxSortName() + " " + es.Name + "))"
	w.heapValSort[name] = es
	return name
}

func (w *World) cellHeap(s *Sort) string {
	name := "C_" + sanitize(s.Name)
	w.heapSorts[name] = "(Array Int " + s.Name + ")"
	w.heapValSort[name] = s
	return name
}

func (w *World) globalHeap(pkg *types.Package, name string, s *Sort) string {
	h := "G_" + shortPkg(pkg) + "." + name
	w.heapSorts[h] = s.Name
	w.heapValSort[h] = s
	return h
}

type unsupportedErr string

func (u unsupportedErr) Error() string { return string(u) }

func sortedKeys(m map[string]bool) []string {
	var ks []string
	for k := range m {
		ks = append(ks, k)
	}
	sort.Strings(ks)
	return ks
}

// predeclareSpecTypes declares the struct sorts that spec files name in
// "; uses-type pkg.Type" so the spec text can refer to them.
func (w *World) predeclareSpecTypes() {
	mode := "int"
	if w.BV {
		mode = "bv"
	}
	for _, sf := range w.P.Spec.Files {
		if sf.Mode != "" && sf.Mode != mode {
			continue
		}
		for _, ut := range sf.UsesType {
			i := strings.LastIndex(ut, ".")
			if i < 0 {
				continue
			}
			pk, name := ut[:i], ut[i+1:]
			for _, lp := range w.P.Pkgs {
				var tp *types.Package
				if lp.Types.Name() == pk {
					tp = lp.Types
				} else {
					for _, im := range lp.Types.Imports() {
						if im.Name() == pk {
							tp = im
						}
					}
				}
				if tp == nil {
					continue
				}
				if t := lookupType(tp, name); t != nil {
					w.sortOf(t)
					break
				}
			}
		}
	}
}

func (w *World) popFact() {
	w.facts = w.facts[:len(w.facts)-1]
	w.factBlock = w.factBlock[:len(w.factBlock)-1]
	w.factTag = w.factTag[:len(w.factTag)-1]
}

// isSentinelError: package-level variables of type error that are never
// reassigned by convention (io.EOF, io.ErrUnexpectedEOF, context.Canceled,
// osm.ErrScannerClosed, ...). They are modelled as distinct non-nil constants.
func isSentinelError(pkgPath, name string, t types.Type) bool {
	if !types.Identical(t, types.Universe.Lookup("error").Type()) {
		return false
	}
	return name == "EOF" || strings.HasPrefix(name, "Err") || name == "Canceled" || name == "DeadlineExceeded" || strings.HasPrefix(name, "err")
}

func (w *World) sentinelTerm(pkgPath, name string) Term {
	h := fnv32(pkgPath + "." + name)
	return Term{fmt.Sprintf("(mk-iface %d %d)", 2000000000+int64(h), h), &Sort{Name: "Iface", Kind: KIface, Go: types.Universe.Lookup("error").Type()}}
}

func fnv32(s string) uint32 {
	h := uint32(2166136261)
	for i := 0; i < len(s); i++ {
		h ^= uint32(s[i])
		h *= 16777619
	}
	return h%1000000000 + 1
}

// declFaddr declares the address-of-field function (injective).
func (w *World) declFaddr() {
	if w.funDeclared["faddr"] {
		return
	}
	w.declFun("faddr", []string{"Int", "Int"}, "Int")
	w.funDecls = append(w.funDecls, "(assert (forall ((a Int) (i Int) (b Int) (j Int)) (! (=> (= (faddr a i) (faddr b j)) (and (= a b) (= i j))) :pattern ((faddr a i) (faddr b j)))))")
}

func goTypeKey(t types.Type) string {
	t = types.Unalias(t)
	if b, ok := t.(*types.Basic); ok {
		switch b.Kind() {
		case types.Uint8:
			return "uint8"
		case types.Int32:
			return "int32"
		}
		return b.Name()
	}
	s := types.TypeString(t, func(p *types.Package) string { return p.Name() })
	r := strings.NewReplacer("*", "p", "[]", "s", "(", "", ")", "", " ", "_", "<-", "to", "{", "", "}", "", ",", "_", "|", "")
	return r.Replace(s)
}
