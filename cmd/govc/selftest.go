package main

// Thorough tier extras.
//
// (1) Exploration: the executable oracles of the property (transcriptions of
//     the property statement, normally used only to find a concrete failing
//     input for a failed obligation) are run against the real code for a
//     fixed budget even when every obligation is discharged. A failing oracle
//     on the tree at hand is reported as a violation with its input, unless
//     the oracle is named by an entry of known_findings.json.
// (2) Must-fail corpus: every mutant listed in /verif/selftest/<prop>.json and
//     every seeded change kept for the property under /verif/seeded is applied
//     to a scratch copy of the repository (outside /repo and /verif, removed
//     afterwards) and the quick check is run on it; the check must report a
//     violation. Survivors are printed as SELFTEST-MISS lines and recorded in
//     the evidence; they do not change the verdict on the tree at hand (they
//     say something about the checker, not about the code).

import (
	"encoding/json"
	"fmt"
	"os"
	"os/exec"
	"path/filepath"
	"sort"
	"strings"
)

type selfMutant struct {
	Name string `json:"name"`
	File string `json:"file"`
	Old  string `json:"old"`
	New  string `json:"new"`
	Nth  int    `json:"nth"` // 1-based occurrence of Old to replace (0 or 1 = first)
}

type selfResult struct {
	Name   string `json:"name"`
	Caught bool   `json:"caught"`
	Detail string `json:"detail,omitempty"`
}

func runSelftest(o *CheckOpts) []selfResult {
	var out []selfResult
	var muts []selfMutant
	if b, err := os.ReadFile(filepath.Join(o.Verif, "selftest", o.Prop+".json")); err == nil {
		if err := json.Unmarshal(b, &muts); err != nil {
			out = append(out, selfResult{Name: "selftest file", Detail: err.Error()})
		}
	}
	exe, _ := os.Executable()
	runOn := func(name string, prepare func(dir string) error) {
		tmp, err := os.MkdirTemp("", "govc-selftest-")
		if err != nil {
			out = append(out, selfResult{Name: name, Detail: err.Error()})
			return
		}
		defer os.RemoveAll(tmp)
		dir := filepath.Join(tmp, "repo")
		if b, err := exec.Command("cp", "-r", o.Repo, dir).CombinedOutput(); err != nil {
			out = append(out, selfResult{Name: name, Detail: "copy: " + string(b)})
			return
		}
		os.RemoveAll(filepath.Join(dir, ".git"))
		if err := prepare(dir); err != nil {
			out = append(out, selfResult{Name: name, Detail: "not applicable to this tree: " + err.Error()})
			return
		}
		build := exec.Command("go", "build", "./...")
		build.Dir = dir
		build.Env = append(os.Environ(), "GOFLAGS=-mod=mod", "GOPROXY=off", "GOSUMDB=off", "GOTOOLCHAIN=local")
		if b, err := build.CombinedOutput(); err != nil {
			out = append(out, selfResult{Name: name, Detail: "mutant does not build: " + truncate(string(b), 200)})
			return
		}
		cmd := exec.Command(exe, "check", "--property", o.Prop, "--tier", "quick", "--repo", dir, "--verif", o.Verif, "--no-evidence")
		cmd.Env = append(os.Environ(), "GOVC_FAST=1", "GOVC_NO_ORACLE=1")
		b, _ := cmd.CombinedOutput()
		caught := false
		detail := ""
		for _, l := range strings.Split(string(b), "\n") {
			if strings.HasPrefix(l, "VIOLATION ") {
				caught = true
				if i := strings.Index(l, "obligation="); i >= 0 && detail == "" {
					detail = strings.Fields(l[i:])[0]
				}
			}
		}
		out = append(out, selfResult{Name: name, Caught: caught, Detail: detail})
	}
	for _, m := range muts {
		m := m
		runOn("mutant:"+m.Name, func(dir string) error {
			p := filepath.Join(dir, m.File)
			b, err := os.ReadFile(p)
			if err != nil {
				return err
			}
			s := string(b)
			n := m.Nth
			if n < 1 {
				n = 1
			}
			idx := -1
			from := 0
			for k := 0; k < n; k++ {
				i := strings.Index(s[from:], m.Old)
				if i < 0 {
					return fmt.Errorf("text to replace not found in %s", m.File)
				}
				idx = from + i
				from = idx + len(m.Old)
			}
			s = s[:idx] + m.New + s[idx+len(m.Old):]
			return os.WriteFile(p, []byte(s), 0o644)
		})
	}
	// seeded changes kept for this property
	ents, _ := os.ReadDir(filepath.Join(o.Verif, "seeded"))
	var dirs []string
	for _, e := range ents {
		if e.IsDir() && strings.Contains(e.Name(), "-"+o.Prop+"-") {
			dirs = append(dirs, e.Name())
		}
	}
	sort.Strings(dirs)
	for _, d := range dirs {
		patch := filepath.Join(o.Verif, "seeded", d, "patch.diff")
		runOn("seeded:"+d, func(dir string) error {
			cmd := exec.Command("patch", "-p1", "-s", "-i", patch)
			cmd.Dir = dir
			if b, err := cmd.CombinedOutput(); err != nil {
				return fmt.Errorf("patch: %s", truncate(string(b), 200))
			}
			return nil
		})
	}
	return out
}
