package main

import (
	"regexp"
	"bytes"
	"context"
	"fmt"
	"os"
	"os/exec"
	"path/filepath"
	"strings"
	"sync"
	"time"
)

const preludeInt = `
(define-fun go_div ((a Int) (b Int)) Int (ite (>= a 0) (ite (> b 0) (div a b) (- (div a (- b)))) (ite (> b 0) (- (div (- a) b)) (div (- a) (- b)))))
(define-fun go_mod ((a Int) (b Int)) Int (- a (* b (go_div a b))))
(define-fun go_trunc ((r Real)) Int (ite (>= r 0.0) (to_int r) (- (to_int (- r)))))
(declare-fun int_and (Int Int) Int)
(declare-fun int_or (Int Int) Int)
(declare-fun int_xor (Int Int) Int)
(declare-fun int_andnot (Int Int) Int)
(declare-fun int_shl (Int Int) Int)
(declare-fun int_shr (Int Int) Int)
(define-fun time_zero () Int 0)
(declare-fun sidx (Int Int) Int)
(assert (forall ((a Int) (b Int)) (! (= (sidx a b) (+ a b)) :pattern ((sidx a b)))))
`

func (w *World) queryText(o *Obligation, wantModel bool) string {
	return w.queryTextV(o, wantModel, false)
}

// queryTextV: focused=true drops quantified assumptions that are (a) other
// loop invariants than o.Focus and (b) earlier obligations turned into
// assumptions. Dropping assumptions is sound for "unsat" answers only.
func (w *World) queryTextV(o *Obligation, wantModel, focused bool) string {
	return w.queryTextS(o, wantModel, focused, 0)
}

var symTokenRe = regexp.MustCompile(`\|[^|]*\||[A-Za-z_][A-Za-z0-9_.!@$#%^&*<>=/+~?-]*`)

// factSymbols: the declared constants a fact mentions, split into data symbols and control symbols
// (reach_/edge_ path variables).
func (w *World) factSymbols(f string) (data []string) {
	seen := map[string]bool{}
	for _, tok := range symTokenRe.FindAllString(f, -1) {
		name := strings.Trim(tok, "|")
		if seen[name] || !w.constSet[name] {
			continue
		}
		seen[name] = true
		if strings.HasPrefix(name, "reach_") || strings.HasPrefix(name, "edge_") {
			continue
		}
		data = append(data, name)
	}
	return data
}

// relevantFacts: a cone of influence of the goal over data symbols, `depth` rounds deep. Symbols
// that occur in very many facts (the receiver, the entry allocation counter) do not pull facts in.
// Facts without data symbols (pure control flow) are always kept. Dropping assumptions is sound
// for "unsat" answers only, and only those are used from sliced queries.
func (w *World) relevantFacts(o *Obligation, idx []int, depth int) map[int]bool {
	syms := make([][]string, len(w.facts))
	count := map[string]int{}
	for _, i := range idx {
		syms[i] = w.factSymbols(w.facts[i])
		for _, s := range syms[i] {
			count[s]++
		}
	}
	hub := func(s string) bool { return count[s] > 60 }
	S := map[string]bool{}
	for _, s := range w.factSymbols(o.Goal + " " + o.Reach) {
		S[s] = true
	}
	keep := map[int]bool{}
	for round := 0; round < depth; round++ {
		var add []string
		for _, i := range idx {
			if keep[i] {
				continue
			}
			hit := false
			for _, s := range syms[i] {
				if S[s] && !hub(s) {
					hit = true
					break
				}
			}
			if hit {
				keep[i] = true
				add = append(add, syms[i]...)
			}
		}
		if len(add) == 0 {
			break
		}
		for _, s := range add {
			S[s] = true
		}
	}
	for _, i := range idx {
		if len(syms[i]) == 0 {
			keep[i] = true
		}
	}
	return keep
}

// queryTextS: slice > 0 additionally restricts the assumptions to the cone of influence of the goal
// (relevantFacts with that depth).
func (w *World) queryTextS(o *Obligation, wantModel, focused bool, slice int) string {
	var sb strings.Builder
	if wantModel {
		sb.WriteString("(set-option :produce-models true)\n")
	}
	sb.WriteString("(set-logic ALL)\n")
	sb.WriteString(fmt.Sprintf("(declare-datatypes ((Slice 0)) (((mk-slice (s-arr Int) (s-off %s) (s-len %s) (s-cap %s)))))\n", w.idxSortName(), w.idxSortName(), w.idxSortName()))
	sb.WriteString("(declare-datatypes ((Iface 0)) (((mk-iface (i-dyn Int) (i-val Int)))))\n")
	sb.WriteString(preludeInt)
	for _, d := range w.sortDecls[2:] {
		sb.WriteString(d + "\n")
	}
	mode := "int"
	if w.BV {
		mode = "bv"
	}
	for _, sf := range w.P.Spec.Files {
		if sf.Mode != "" && sf.Mode != mode {
			continue
		}
		sb.WriteString("; spec " + filepath.Base(sf.Path) + "\n")
		if o.Cover {
			sb.WriteString(sf.TextNoAx + "\n")
		} else {
			sb.WriteString(sf.Text + "\n")
		}
	}
	for _, d := range w.funDecls {
		sb.WriteString(d + "\n")
	}
	for _, d := range w.constDecls {
		sb.WriteString(d + "\n")
	}
	var rel map[int]bool
	if slice > 0 {
		var idx []int
		for i := range w.facts[:o.NFacts] {
			if o.Anc != nil && w.factBlock[i] >= 0 && !o.Anc[w.factBlock[i]] {
				continue
			}
			idx = append(idx, i)
		}
		rel = w.relevantFacts(o, idx, slice)
	}
	for i, f := range w.facts[:o.NFacts] {
		if o.Anc != nil && w.factBlock[i] >= 0 && !o.Anc[w.factBlock[i]] {
			continue
		}
		if rel != nil && !rel[i] {
			continue
		}
		if o.Cover && strings.Contains(f, "(forall ") {
			continue // covers: dropping facts keeps "unsat => vacuous" valid and lets sat be found quickly
		}
		if focused && (strings.Contains(f, "(forall ") || strings.Contains(f, "(exists ")) {
			tag := w.factTag[i]
			if tag == "obl" {
				continue
			}
			if strings.HasPrefix(tag, "inv:") && tag != o.Focus && (o.FocusSet == nil || !o.FocusSet[tag]) {
				continue
			}
		}
		sb.WriteString("(assert " + f + ")\n")
	}
	sb.WriteString("(assert " + o.Reach + ")\n")
	if o.Cover {
		sb.WriteString("(assert " + o.Goal + ")\n")
	} else {
		sb.WriteString("(assert (not " + o.Goal + "))\n")
	}
	sb.WriteString("(check-sat)\n")
	if wantModel {
		sb.WriteString("(get-model)\n")
	}
	return sb.String()
}

type SolveResult struct {
	Status  string  // unsat, sat, unknown, timeout, error
	Solver  string
	Seconds float64
	Output  string
	Tried   []string
}

type solverSpec struct {
	name string
	args func(file string, timeoutS int, seed int) []string
}

var solvers = []solverSpec{
	{"z3-new", func(f string, t, seed int) []string {
		return []string{"z3-new", fmt.Sprintf("-T:%d", t), fmt.Sprintf("smt.random_seed=%d", seed), f}
	}},
	{"z3", func(f string, t, seed int) []string {
		return []string{"z3", fmt.Sprintf("-T:%d", t), fmt.Sprintf("smt.random_seed=%d", seed), f}
	}},
	{"cvc5", func(f string, t, seed int) []string {
		return []string{"cvc5", "--strings-exp", fmt.Sprintf("--tlimit=%d", t*1000), fmt.Sprintf("--seed=%d", seed), f}
	}},
}

func runSolver(parent context.Context, sp solverSpec, file string, timeoutS, seed int) SolveResult {
	args := sp.args(file, timeoutS, seed)
	ctx, cancel := context.WithTimeout(parent, time.Duration(timeoutS+2)*time.Second)
	defer cancel()
	cmd := exec.CommandContext(ctx, args[0], args[1:]...)
	var out bytes.Buffer
	cmd.Stdout = &out
	cmd.Stderr = &out
	start := time.Now()
	_ = cmd.Run()
	el := time.Since(start).Seconds()
	text := out.String()
	first := ""
	for _, ln := range strings.Split(text, "\n") {
		ln = strings.TrimSpace(ln)
		if ln == "" || strings.HasPrefix(ln, "WARNING") {
			continue
		}
		first = ln
		break
	}
	st := "error"
	switch {
	case first == "unsat":
		st = "unsat"
	case first == "sat":
		st = "sat"
	case first == "unknown":
		st = "unknown"
	case first == "timeout" || strings.Contains(first, "timeout") || strings.Contains(text, "interrupted by timeout") || ctx.Err() != nil:
		st = "timeout"
	}
	return SolveResult{Status: st, Solver: sp.name, Seconds: el, Output: text}
}

// solve runs the portfolio on a query. File is kept only if keep is true.
func solve(query string, dir, name string, timeoutS, seed int, allSolvers bool) SolveResult {
	file := filepath.Join(dir, sanitizeFile(name)+".smt2")
	_ = os.WriteFile(file, []byte(query), 0o644)
	var tried []string
	// race all
	ch := make(chan SolveResult, len(solvers))
	rctx, rcancel := context.WithCancel(context.Background())
	defer rcancel()
	var wg sync.WaitGroup
	for _, sp := range solvers {
		wg.Add(1)
		go func(sp solverSpec) {
			defer wg.Done()
			ch <- runSolver(rctx, sp, file, timeoutS, seed)
		}(sp)
	}
	go func() { wg.Wait(); close(ch) }()
	var best *SolveResult
	var results []SolveResult
	for r := range ch {
		results = append(results, r)
		tried = append(tried, fmt.Sprintf("%s:%s:%.2fs", r.Solver, r.Status, r.Seconds))
		if (r.Status == "unsat" || r.Status == "sat") && best == nil && !allSolvers {
			rr := r
			best = &rr
			break
		}
	}
	if allSolvers {
		// any sat wins (violation), else unsat if any says unsat
		for i := range results {
			if results[i].Status == "sat" {
				best = &results[i]
				break
			}
		}
		if best == nil {
			for i := range results {
				if results[i].Status == "unsat" {
					best = &results[i]
					break
				}
			}
		}
	}
	if best == nil {
		r := results[0]
		for _, x := range results {
			if x.Status == "unknown" {
				r = x
			}
		}
		best = &r
	}
	best.Tried = tried
	return *best
}

func sanitizeFile(s string) string {
	r := strings.NewReplacer("/", "_", "(", "", ")", "", "*", "p", " ", "_", "#", "--", "$", "S", "|", "")
	s = r.Replace(s)
	if len(s) > 180 {
		s = s[len(s)-180:]
	}
	return s
}
