package main

import "fmt"

// tryReplay attempts to turn a solver model into a concrete input and run it
// against the real code. Returns true if the violation was confirmed.
func tryReplay(o *CheckOpts, prog *Program, obligation, solverOutput string, rep map[string]interface{}) bool {
	for _, r := range replayers {
		if r.match(o.Prop, obligation) {
			return r.run(o, prog, obligation, solverOutput, rep)
		}
	}
	rep["replay"] = "no replayer for this obligation; the solver model is attached"
	return false
}

type replayer struct {
	match func(prop, obligation string) bool
	run   func(o *CheckOpts, prog *Program, obligation, solverOutput string, rep map[string]interface{}) bool
}

var replayers []replayer

func runReplay(path string) int {
	fmt.Println("replay file:", path)
	return replayFile(path)
}

func replayFile(path string) int {
	b, err := readFile(path)
	if err != nil {
		fmt.Println("ERROR:", err)
		return 2
	}
	fmt.Println(string(b))
	return 0
}
