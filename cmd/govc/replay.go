package main

// Replay of solver counterexamples against the real code.
//
// Generic path (this file): functions and lemma harnesses whose parameters are
// all scalars (integers, booleans, strings, floats, named versions thereof).
// The model's parameter values are compiled into an in-package Go test that is
// injected with `go test -overlay` (nothing is written into the repository),
// the real function is called, and
//   - for a harness: a failing vAssert at the obligation's source position, or
//   - for nopanic obligations: an observed panic, or
//   - for ensures clauses: the clause evaluated (by the solver) on the observed
//     ground results being false
// confirms the violation on the real code.

import (
	"bytes"
	"context"
	"encoding/json"
	"fmt"
	"go/types"
	"math/big"
	"os"
	"os/exec"
	"path/filepath"
	"regexp"
	"strconv"
	"strings"
	"time"

	"golang.org/x/tools/go/ssa"
)

type replayCtx struct {
	o    *CheckOpts
	prog *Program
	ob   *Obligation
	fn   *ssa.Function
	c    *Contract
	rep  map[string]interface{}
}

func tryReplay(o *CheckOpts, prog *Program, ob *Obligation, rep map[string]interface{}) bool {
	fn := prog.Funcs[ob.Func]
	if fn == nil || ob.W == nil {
		rep["replay"] = "no function for this obligation"
		return false
	}
	rc := &replayCtx{o: o, prog: prog, ob: ob, fn: fn, c: prog.contractFor(fn), rep: rep}
	for _, r := range replayers {
		if r.match(o.Prop, ob.Name) {
			return r.run(rc)
		}
	}
	ok, why := rc.genericScalarReplay()
	if why != "" {
		rep["replay"] = why
	}
	return ok
}

type replayer struct {
	match func(prop, obligation string) bool
	run   func(rc *replayCtx) bool
}

var replayers []replayer

// getValues re-runs z3-new on the obligation's query asking for the values of terms.
func getValues(ob *Obligation, terms []string, timeoutS int) (map[string]string, error) {
	if len(terms) == 0 {
		return map[string]string{}, nil
	}
	q := ob.W.queryText(ob, true)
	q = strings.Replace(q, "(get-model)\n", "", 1)
	q += "(get-value (" + strings.Join(terms, " ") + "))\n"
	dir, err := os.MkdirTemp("", "govc-gv-")
	if err != nil {
		return nil, err
	}
	defer os.RemoveAll(dir)
	f := filepath.Join(dir, "q.smt2")
	os.WriteFile(f, []byte(q), 0o644)
	for _, sp := range solvers[:2] {
		r := runSolver(context.Background(), sp, f, timeoutS, 0)
		if r.Status != "sat" {
			continue
		}
		rest := strings.SplitN(r.Output, "\n", 2)
		if len(rest) < 2 {
			continue
		}
		xs, err := parseSexps(rest[1])
		if err != nil || len(xs) == 0 {
			continue
		}
		out := map[string]string{}
		for _, pair := range xs[0].list {
			if len(pair.list) == 2 {
				out[pair.list[0].String()] = pair.list[1].String()
			}
		}
		return out, nil
	}
	return nil, fmt.Errorf("no model from z3-new/z3")
}

// smtToGoLiteral converts an SMT value of a scalar sort to a Go expression of type gt.
func smtToGoLiteral(val string, s *Sort, gt types.Type, qual types.Qualifier) (string, bool) {
	tn := types.TypeString(gt, qual)
	switch s.Kind {
	case KBool:
		return tn + "(" + val + ")", val == "true" || val == "false"
	case KString:
		str, ok := smtStringValue(val)
		if !ok {
			return "", false
		}
		return tn + "(" + strconv.Quote(str) + ")", true
	case KInt:
		if isNamed(gt, "time", "Time") {
			return "", false
		}
		v, ok := smtIntValue(val, s)
		if !ok {
			return "", false
		}
		return tn + "(" + v.String() + ")", true
	case KReal:
		r, ok := smtRealValue(val)
		if !ok {
			return "", false
		}
		f, _ := r.Float64()
		return tn + "(" + strconv.FormatFloat(f, 'g', -1, 64) + ")", true
	}
	return "", false
}

func smtStringValue(val string) (string, bool) {
	if len(val) < 2 || val[0] != '"' {
		return "", false
	}
	body := val[1 : len(val)-1]
	body = strings.ReplaceAll(body, "\"\"", "\"")
	re := regexp.MustCompile(`\\u\{([0-9a-fA-F]+)\}|\\u([0-9a-fA-F]{4})`)
	body = re.ReplaceAllStringFunc(body, func(m string) string {
		sub := re.FindStringSubmatch(m)
		h := sub[1]
		if h == "" {
			h = sub[2]
		}
		n, _ := strconv.ParseInt(h, 16, 32)
		return string(rune(n))
	})
	return body, true
}

func smtIntValue(val string, s *Sort) (*big.Int, bool) {
	val = strings.TrimSpace(val)
	if strings.HasPrefix(val, "#x") {
		v, ok := new(big.Int).SetString(val[2:], 16)
		if !ok {
			return nil, false
		}
		if s.Signed && v.Bit(s.Bits-1) == 1 {
			v.Sub(v, new(big.Int).Lsh(big.NewInt(1), uint(s.Bits)))
		}
		return v, true
	}
	if strings.HasPrefix(val, "#b") {
		v, ok := new(big.Int).SetString(val[2:], 2)
		if !ok {
			return nil, false
		}
		if s.Signed && v.Bit(s.Bits-1) == 1 {
			v.Sub(v, new(big.Int).Lsh(big.NewInt(1), uint(s.Bits)))
		}
		return v, true
	}
	if strings.HasPrefix(val, "(- ") {
		v, ok := new(big.Int).SetString(strings.TrimSuffix(strings.TrimPrefix(val, "(- "), ")"), 10)
		if !ok {
			return nil, false
		}
		return v.Neg(v), true
	}
	v, ok := new(big.Int).SetString(val, 10)
	return v, ok
}

func smtRealValue(val string) (*big.Rat, bool) {
	val = strings.TrimSpace(val)
	neg := false
	if strings.HasPrefix(val, "(- ") {
		neg = true
		val = strings.TrimSuffix(strings.TrimPrefix(val, "(- "), ")")
	}
	var r *big.Rat
	if strings.HasPrefix(val, "(/ ") {
		parts := strings.Fields(strings.TrimSuffix(strings.TrimPrefix(val, "(/ "), ")"))
		if len(parts) != 2 {
			return nil, false
		}
		a, ok1 := new(big.Rat).SetString(parts[0])
		b, ok2 := new(big.Rat).SetString(parts[1])
		if !ok1 || !ok2 || b.Sign() == 0 {
			return nil, false
		}
		r = new(big.Rat).Quo(a, b)
	} else {
		var ok bool
		r, ok = new(big.Rat).SetString(val)
		if !ok {
			return nil, false
		}
	}
	if neg {
		r.Neg(r)
	}
	return r, true
}

func isScalarSort(s *Sort) bool {
	switch s.Kind {
	case KBool, KString, KReal:
		return true
	case KInt:
		return s.Go == nil || !isNamed(s.Go, "time", "Time")
	}
	return false
}

const replayMarkers = `//go:build verif

package %s

import (
	"fmt"
	"runtime"
)

func vAssert(b bool) {
	if !b {
		_, file, line, _ := runtime.Caller(1)
		fmt.Printf("GOVC-ASSERT-FAIL %%s:%%d\n", file, line)
	}
}
func vAssume(b bool) {
	if !b {
		_, file, line, _ := runtime.Caller(1)
		fmt.Printf("GOVC-ASSUME-FALSE %%s:%%d\n", file, line)
	}
}
func vCover(b bool) {}
`

func (rc *replayCtx) genericScalarReplay() (bool, string) {
	fn := rc.fn
	w := rc.ob.W
	if fn.Parent() != nil {
		return false, "anonymous function: no generic replay"
	}
	pkg := fn.Pkg.Pkg
	qual := types.RelativeTo(pkg)
	var terms []string
	for _, p := range fn.Params {
		s := w.sortOf(p.Type())
		if !isScalarSort(s) {
			return false, fmt.Sprintf("parameter %s has non-scalar type %s: no generic replay; solver model attached", p.Name(), p.Type())
		}
		terms = append(terms, q("p_"+p.Name()))
	}
	vals, err := getValues(rc.ob, terms, 20)
	if err != nil {
		return false, "could not obtain model values: " + err.Error()
	}
	var args []string
	inputs := map[string]string{}
	for _, p := range fn.Params {
		s := w.sortOf(p.Type())
		lit, ok := smtToGoLiteral(vals[q("p_"+p.Name())], s, p.Type(), qual)
		if !ok {
			return false, "cannot convert model value " + vals[q("p_"+p.Name())] + " for " + p.Name()
		}
		args = append(args, lit)
		inputs[p.Name()] = lit
	}
	rc.rep["inputs"] = inputs
	// build call expression
	var call string
	if fn.Signature.Recv() != nil {
		recv := args[0]
		call = fmt.Sprintf("(%s).%s(%s)", recv, fn.Name(), strings.Join(args[1:], ", "))
	} else {
		call = fmt.Sprintf("%s(%s)", fn.Name(), strings.Join(args, ", "))
	}
	nres := fn.Signature.Results().Len()
	var lhs []string
	for i := 0; i < nres; i++ {
		lhs = append(lhs, fmt.Sprintf("r%d", i))
	}
	assign := ""
	if nres > 0 {
		assign = strings.Join(lhs, ", ") + " := "
	}
	var body strings.Builder
	body.WriteString(fmt.Sprintf("package %s\n\nimport (\n\t\"fmt\"\n\t\"testing\"\n)\n\n", pkg.Name()))
	body.WriteString("func TestGovcReplay(t *testing.T) {\n")
	body.WriteString("\tdefer func() {\n\t\tif r := recover(); r != nil {\n\t\t\tfmt.Printf(\"GOVC-PANIC %v\\n\", r)\n\t\t}\n\t}()\n")
	body.WriteString("\t" + assign + call + "\n")
	for i := 0; i < nres; i++ {
		rt := fn.Signature.Results().At(i).Type()
		s := w.sortOf(rt)
		switch {
		case s.Kind == KIface:
			body.WriteString(fmt.Sprintf("\tfmt.Printf(\"GOVC-RESULT %d iface %%v %%T\\n\", r%d == nil, r%d)\n", i, i, i))
		case s.Kind == KString:
			body.WriteString(fmt.Sprintf("\tfmt.Printf(\"GOVC-RESULT %d string %%q\\n\", string(r%d))\n", i, i))
		case s.Kind == KBool:
			body.WriteString(fmt.Sprintf("\tfmt.Printf(\"GOVC-RESULT %d bool %%v\\n\", bool(r%d))\n", i, i))
		case s.Kind == KInt && isScalarSort(s):
			body.WriteString(fmt.Sprintf("\tfmt.Printf(\"GOVC-RESULT %d int %%d\\n\", r%d)\n", i, i))
		case s.Kind == KReal:
			body.WriteString(fmt.Sprintf("\tfmt.Printf(\"GOVC-RESULT %d real %%v\\n\", float64(r%d))\n", i, i))
		default:
			body.WriteString(fmt.Sprintf("\t_ = r%d\n\tfmt.Printf(\"GOVC-RESULT %d opaque\\n\")\n", i, i))
		}
	}
	body.WriteString("\tfmt.Println(\"GOVC-DONE\")\n}\n")
	out, err := rc.runInPackageTest(pkg, body.String())
	rc.rep["replay_test"] = body.String()
	rc.rep["replay_output"] = truncate(out, 4000)
	if err != nil && !strings.Contains(out, "GOVC-") {
		return false, "replay test did not run: " + err.Error()
	}
	rc.rep["replay_call"] = call
	// interpret
	panicked := strings.Contains(out, "GOVC-PANIC")
	switch rc.ob.Kind {
	case "nopanic":
		if panicked {
			rc.rep["replay"] = "panic observed on the real code"
			return true, ""
		}
		return false, "no panic observed for the model's input"
	case "assert":
		// failing vAssert at the obligation's position
		want := rc.ob.Where
		for _, line := range strings.Split(out, "\n") {
			if strings.HasPrefix(line, "GOVC-ASSERT-FAIL ") {
				loc := strings.TrimPrefix(line, "GOVC-ASSERT-FAIL ")
				if i := strings.LastIndex(loc, "/"); i >= 0 {
					loc = loc[i+1:]
				}
				if loc == want {
					rc.rep["replay"] = "vAssert at " + want + " is false on the real code for the model's input"
					return true, ""
				}
			}
		}
		if panicked {
			return false, "harness panicked before reaching the assertion"
		}
		return false, "assertion held on the real code for the model's input (the failing proof step is in a callee contract or the abstraction)"
	case "requires":
		return false, "precondition of a callee not provable at this call site; no input replay for call-site obligations"
	case "ensures":
		if panicked {
			return false, "function panicked on the model's input"
		}
		return rc.evalEnsuresOnGround(out, vals)
	}
	return false, "no replay strategy for obligation kind " + rc.ob.Kind
}

// evalEnsuresOnGround evaluates the ensures clause with parameters and
// results bound to the observed ground values.
func (rc *replayCtx) evalEnsuresOnGround(out string, vals map[string]string) (bool, string) {
	fn := rc.fn
	if rc.c == nil {
		return false, "no contract"
	}
	// which ensures clause
	m := regexp.MustCompile(`#ensures(\d+)@`).FindStringSubmatch(rc.ob.Name)
	if m == nil {
		return false, "cannot identify ensures clause"
	}
	k, _ := strconv.Atoi(m[1])
	if k < 1 || k > len(rc.c.Ensures) {
		return false, "ensures index out of range"
	}
	clause := rc.c.Ensures[k-1]
	w := newWorld(rc.prog, rc.ob.W.BV)
	env := map[string]Term{}
	for i, p := range fn.Params {
		s := w.sortOf(p.Type())
		t := Term{vals[q("p_"+p.Name())], s}
		env[p.Name()] = t
		env[fmt.Sprintf("arg%d", i)] = t
	}
	res := fn.Signature.Results()
	observed := map[string]string{}
	for _, line := range strings.Split(out, "\n") {
		if !strings.HasPrefix(line, "GOVC-RESULT ") {
			continue
		}
		f := strings.SplitN(strings.TrimPrefix(line, "GOVC-RESULT "), " ", 3)
		if len(f) < 2 {
			continue
		}
		i, _ := strconv.Atoi(f[0])
		if i >= res.Len() {
			continue
		}
		s := w.sortOf(res.At(i).Type())
		var t Term
		switch f[1] {
		case "int":
			v, ok := new(big.Int).SetString(strings.TrimSpace(f[2]), 10)
			if !ok {
				return false, "bad int result"
			}
			t = w.intLit(v, s)
		case "bool":
			t = Term{strings.TrimSpace(f[2]), s}
		case "string":
			str, err := strconv.Unquote(strings.TrimSpace(f[2]))
			if err != nil {
				return false, "bad string result"
			}
			t = Term{strLit(str), s}
		case "real":
			r, ok := new(big.Rat).SetString(strings.TrimSpace(f[2]))
			if !ok {
				return false, "bad real result"
			}
			t = Term{ratLit(r), s}
		case "iface":
			parts := strings.Fields(f[2])
			if parts[0] == "true" {
				t = Term{"(mk-iface 0 0)", s}
			} else {
				t = Term{"(mk-iface 1 1)", s}
			}
		default:
			return false, "result " + f[0] + " is not a scalar: cannot evaluate the clause on ground values"
		}
		observed[fmt.Sprintf("result%d", i)] = t.S
		env[fmt.Sprintf("result%d", i)] = t
		if res.Len() == 1 {
			env["result"] = t
		}
		if n := res.At(i).Name(); n != "" && n != "_" {
			env[n] = t
		}
	}
	rc.rep["observed"] = observed
	st := &State{heaps: map[string]string{}, locals: map[string]string{}, alloc: "0"}
	ec := &evalCtx{w: w, pkg: fn.Pkg.Pkg, env: env, st: st, old: st}
	var term Term
	var evalErr error
	func() {
		defer func() {
			if r := recover(); r != nil {
				evalErr = fmt.Errorf("%v", r)
			}
		}()
		term = ec.evalBool(clause.E)
	}()
	if evalErr != nil {
		return false, "cannot evaluate clause on ground values: " + evalErr.Error()
	}
	if len(w.constDecls) > 0 {
		return false, "clause mentions the heap: cannot evaluate on ground values"
	}
	ob := &Obligation{Name: "ground", NFacts: 0, Goal: term.S, Reach: "true", W: w}
	qt := w.queryText(ob, false)
	dir, _ := os.MkdirTemp("", "govc-ground-")
	defer os.RemoveAll(dir)
	r := solve(qt, dir, "ground", 20, 0, false)
	rc.rep["ground_clause"] = term.S
	rc.rep["ground_status"] = r.Status
	if r.Status == "sat" {
		rc.rep["replay"] = "the real function's observed result violates the clause: " + clause.Src
		return true, ""
	}
	if r.Status == "unsat" {
		return false, "the real function satisfies the clause on the model's input (abstraction was too coarse)"
	}
	return false, "ground evaluation inconclusive: " + r.Status
}

// runInPackageTest injects a test file (plus the lemma overlay with recording
// markers) into pkg's directory via -overlay and runs it.
func (rc *replayCtx) runInPackageTest(pkg *types.Package, testSrc string) (string, error) {
	return rc.runInPackageTestWithMarkers(pkg, testSrc, fmt.Sprintf(replayMarkers, pkg.Name()), "^TestGovcReplay$", 60)
}

func (rc *replayCtx) runInPackageTestWithMarkers(pkg *types.Package, testSrc, markers, runPat string, timeoutS int) (string, error) {
	rel := strings.TrimPrefix(strings.TrimPrefix(pkg.Path(), modPath), "/")
	pkgDir := filepath.Join(rc.o.Repo, rel)
	dir, err := os.MkdirTemp("", "govc-replay-")
	if err != nil {
		return "", err
	}
	defer os.RemoveAll(dir)
	ov := map[string]string{}
	tf := filepath.Join(dir, "zz_govc_replay_test.go")
	os.WriteFile(tf, []byte(testSrc), 0o644)
	ov[filepath.Join(pkgDir, "zz_govc_replay_test.go")] = tf
	// lemma files
	ldir := filepath.Join(rc.o.Verif, "lemmas", relOrRoot(rel))
	ents, _ := os.ReadDir(ldir)
	for _, e := range ents {
		if e.IsDir() || !strings.HasSuffix(e.Name(), ".go") {
			continue
		}
		src := filepath.Join(ldir, e.Name())
		if _, dropped := rc.prog.DroppedLemmas[src]; dropped {
			continue // does not compile against this tree (reported separately)
		}
		if e.Name() == "markers.go" {
			mf := filepath.Join(dir, "markers.go")
			os.WriteFile(mf, []byte(markers), 0o644)
			src = mf
		}
		ov[filepath.Join(pkgDir, "zz_verif_"+e.Name())] = src
	}
	ovb, _ := json.Marshal(map[string]interface{}{"Replace": ov})
	ovf := filepath.Join(dir, "overlay.json")
	os.WriteFile(ovf, ovb, 0o644)
	ctx, cancel := context.WithTimeout(context.Background(), time.Duration(timeoutS+90)*time.Second)
	defer cancel()
	cmd := exec.CommandContext(ctx, "go", "test", "-overlay", ovf, "-tags", "verif", "-vet=off", "-count=1", "-timeout", fmt.Sprintf("%ds", timeoutS), "-v", "-run", runPat, ".")
	cmd.Dir = pkgDir
	cmd.Env = append(os.Environ(), "GOFLAGS=-mod=mod", "GOPROXY=off", "GOSUMDB=off", "GOTOOLCHAIN=local")
	var buf bytes.Buffer
	cmd.Stdout = &buf
	cmd.Stderr = &buf
	err = cmd.Run()
	return buf.String(), err
}

func runReplay(path string) int {
	b, err := os.ReadFile(path)
	if err != nil {
		fmt.Println("ERROR:", err)
		return 2
	}
	var rep map[string]interface{}
	if err := json.Unmarshal(b, &rep); err != nil {
		fmt.Println("ERROR:", err)
		return 2
	}
	fmt.Printf("property:   %v\nobligation: %v\nclause:     %v\nstatus:     %v\nconfirmed:  %v\n", rep["property"], rep["obligation"], rep["clause"], rep["solver_status"], rep["confirmed_on_real_code"])
	if v, ok := rep["replay"]; ok {
		fmt.Printf("replay:     %v\n", v)
	}
	if v, ok := rep["inputs"]; ok {
		fmt.Printf("inputs:     %v\n", v)
	}
	if v, ok := rep["replay_call"]; ok {
		fmt.Printf("call:       %v\n", v)
	}
	if v, ok := rep["replay_output"]; ok {
		fmt.Printf("output of the replay on the real code:\n%v\n", v)
	}
	if rep["confirmed_on_real_code"] == true {
		return 1
	}
	return 0
}
