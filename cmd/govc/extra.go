package main

// Extra (non-SMT) checkers: schema tables and structural checks on SSA.

type ExtraResult struct {
	Name   string
	Kind   string
	Clause string
	Where  string
	OK     bool
	Engine string
	Detail string
}

func runExtraCheckers(prog *Program, pc *PropConfig, o *CheckOpts) []ExtraResult {
	var out []ExtraResult
	for _, e := range pc.Extra {
		if f, ok := extraCheckers[e]; ok {
			out = append(out, f(prog, o)...)
		} else {
			out = append(out, ExtraResult{Name: "extra:" + e, Kind: "config", Clause: "extra checker exists", OK: false, Engine: "govc", Detail: "unknown extra checker " + e})
		}
	}
	return out
}

var extraCheckers = map[string]func(*Program, *CheckOpts) []ExtraResult{}
