package main

import (
	"fmt"
	"go/constant"
	"regexp"
	"go/ast"
	"sort"
	"go/token"
	"go/types"
	"strings"

	"golang.org/x/tools/go/ssa"
)

func (ft *funcTrans) block(b *ssa.BasicBlock) {
	w := ft.w
	w.curBlock = b.Index
	defer func() { w.curBlock = -1 }()
	// reach condition
	var fwdPreds []*ssa.BasicBlock
	for _, p := range b.Preds {
		if !ft.isBackEdge(p, b) {
			if _, ok := ft.reach[p]; ok {
				fwdPreds = append(fwdPreds, p)
			}
		}
	}
	li := ft.loops[b]
	var reach string
	if b.Index == 0 {
		reach = "true"
	} else {
		var conds []string
		for _, p := range fwdPreds {
			conds = append(conds, ft.edges[[2]int{p.Index, b.Index}])
		}
		rname := w.declConstRaw(fmt.Sprintf("reach_%d", b.Index), "Bool")
		switch len(conds) {
		case 0:
			w.addFact(fmt.Sprintf("(= %s false)", rname))
		case 1:
			w.addFact(fmt.Sprintf("(= %s %s)", rname, conds[0]))
		default:
			w.addFact(fmt.Sprintf("(= %s (or %s))", rname, strings.Join(conds, " ")))
		}
		reach = rname
	}
	ft.reach[b] = reach
	ft.cur = b
	var st *State
	if b.Index == 0 {
		st = ft.entry.clone()
	} else {
		st = ft.mergeStates(fwdPreds, b)
	}
	if li != nil {
		st = ft.loopHeader(li, fwdPreds, st)
	}
	ft.curSt = st
	if b.Index == 0 && ft.c != nil && ft.c.EntryCount != "" {
		g := ft.c.EntryCount
		srt, ok := w.P.Spec.Ghosts[g]
		if !ok || srt != "Int" {
			panic(unsupportedErr(fmt.Sprintf("entrycount %s: no ghost of sort Int with that name in the spec", g)))
		}
		h := "G_ghost." + g
		w.heapSorts[h] = srt
		old := w.heapSym(ft.curSt, h)
		nw := ft.newHeapVersion(ft.curSt, h)
		w.addFact(fmt.Sprintf("(= %s (+ %s 1))", nw, old))
	}
	// phis (non-header) and instructions
	for _, in := range b.Instrs {
		if phi, ok := in.(*ssa.Phi); ok {
			ft.phi(phi, b, li, fwdPreds)
			continue
		}
		if li != nil && !ft.hdrAssumed[b] {
			ft.assumeInvariants(li)
		}
		ft.instr(in)
	}
	ft.out[b] = ft.curSt
}

// phi defines a phi value: guarded equalities for forward edges; header phis
// of loops are left unconstrained (havoc) and tied to the invariant.
func (ft *funcTrans) phi(phi *ssa.Phi, b *ssa.BasicBlock, li *loopInfo, fwdPreds []*ssa.BasicBlock) {
	w := ft.w
	s := w.sortOf(phi.Type())
	if s.Kind == KRef {
		if _, isStruct := phi.Type().Underlying().(*types.Pointer); !isStruct {
			panic(unsupportedErr("phi of pointer kind"))
		}
	}
	t := w.declConst("v_"+phi.Name(), s)
	ft.vals[phi] = &Val{T: t}
	if li != nil {
		// havocked; well-typedness assumed
		ft.assumeWellTyped(t, ft.curSt, ft.reach[b])
		if phi.Comment == "rangeindex" && isRangeIndexPhi(phi) {
			// the hidden index of a range loop starts at -1 and is only ever incremented
			ft.assume(w.arith(">=", t, w.intLit64(-1, t.Sort)).S)
		}
		return
	}
	for i, p := range b.Preds {
		if ft.isBackEdge(p, b) {
			continue
		}
		if _, ok := ft.reach[p]; !ok {
			continue
		}
		in := ft.termOf(phi.Edges[i])
		in = ft.coerceTo(in, s)
		w.addFact(fmt.Sprintf("(=> %s (= %s %s))", ft.edges[[2]int{p.Index, b.Index}], t.S, in.S))
	}
}

func (ft *funcTrans) coerceTo(t Term, s *Sort) Term {
	if t.Sort.Kind == KUntypedNil || t.Sort.Kind == KUntypedInt {
		c := ft.ctx(ft.curSt, nil)
		return c.coerce(t, s)
	}
	return t
}

// ---- loops

// loopEnv builds the name environment for evaluating invariants of li where
// header phis are bound by pick(phi).
func (ft *funcTrans) loopEnv(li *loopInfo, pick func(*ssa.Phi) Term) map[string]Term {
	env := map[string]Term{}
	for k, v := range ft.env {
		env[k] = v
	}
	for k, v := range ft.namesAtHeader(li.header) {
		env[k] = v
	}
	{
		// ghost iteration counter of this loop: 0 on entry, k at the header, k+1 on a back edge
		k := ft.w.declConst(fmt.Sprintf("iter!loop%d", li.ordinal), ft.w.goInt())
		switch ft.iterMode {
		case "entry":
			env["#iter"] = ft.w.intLit64(0, ft.w.goInt())
		case "back":
			env["#iter"] = ft.w.arith("+", k, ft.w.intLit64(1, ft.w.goInt()))
		default:
			env["#iter"] = k
		}
	}
	// enclosing loops' phis first (outer to inner), then own
	var chain []*loopInfo
	for _, o := range ft.loopList {
		if o != li && o.body[li.header] {
			chain = append(chain, o)
		}
	}
	chain = append(chain, li)
	for _, l := range chain {
		for _, in := range l.header.Instrs {
			phi, ok := in.(*ssa.Phi)
			if !ok {
				break
			}
			var t Term
			if l == li {
				t = pick(phi)
			} else {
				// phis of enclosing loops are dominating definitions like any other: namesAtHeader has
				// bound them already, and a later assignment inside that loop (x += v before an inner
				// loop) must win over the outer header's phi
				if phi.Comment != "rangeindex" {
					continue
				}
				v := ft.vals[phi]
				if v == nil {
					continue
				}
				t = v.T
			}
			name := phi.Comment
			if name == "" {
				continue
			}
			if name == "rangeindex" {
				// #i = number of completed iterations = rangeindex+1
				one := ft.w.intLit64(1, t.Sort)
				env["#i"] = ft.w.arith("+", t, one)
				env["#rangeindex"] = t
				continue
			}
			env[name] = t
		}
	}
	return env
}

func (ft *funcTrans) loopHeader(li *loopInfo, fwdPreds []*ssa.BasicBlock, merged *State) *State {
	w := ft.w
	b := li.header
	ft.scanLoopMods(li)
	// 1. invariants hold on entry (per entry edge: phis bound to incoming values)
	if li.lc != nil {
		for _, p := range fwdPreds {
			pst := ft.out[p]
			edge := ft.edges[[2]int{p.Index, b.Index}]
			pi := predIndex(b, p)
			ft.iterMode = "entry"
			env := ft.loopEnv(li, func(phi *ssa.Phi) Term {
				return ft.coerceTo(ft.termOf(phi.Edges[pi]), w.sortOf(phi.Type()))
			})
			ft.iterMode = ""
			for k, inv := range li.lc.Invariants {
				ec := &evalCtx{w: w, pkg: ft.pkgTypes(), env: env, st: pst, old: ft.entry, lets: ft.lets(), cells: ft.loopCells(li, env), ft: ft}
				t := ec.evalBool(inv.E)
				saved := ft.reach[b]
				ft.reach[b] = edge
				nm := fmt.Sprintf("loop%d.inv%d.entry", li.ordinal, k+1)
				if len(fwdPreds) > 1 {
					nm += fmt.Sprintf("@b%d", p.Index)
				}
				ft.obligation("invariant", nm, inv.Src, t.S)
				ft.reach[b] = saved
			}
		}
	}
	if ft.c != nil && ft.c.HasAssigns {
		// implicit frame invariant, on entry
		for _, p := range fwdPreds {
			pst := ft.out[p]
			edge := ft.edges[[2]int{p.Index, b.Index}]
			for _, h := range ft.loopFrameHeaps(li, pst) {
				if g := ft.frameGoal(pst, h); g != "" {
					saved := ft.reach[b]
					ft.reach[b] = edge
					nm := fmt.Sprintf("loop%d.frame.%s.entry", li.ordinal, h)
				if len(fwdPreds) > 1 {
					nm += fmt.Sprintf("@b%d", p.Index)
				}
				ft.obligation("frame", nm, "loop keeps "+h+" within the assigns clause", g)
					ft.reach[b] = saved
				}
			}
		}
	}
	// 2. havoc what the loop modifies
	st := merged.clone()
	if li.modAll {
		ft.havocAll(st)
	} else {
		for _, h := range sortedKeys(li.modHeaps) {
			if _, ok := w.heapSorts[h]; ok {
				ft.newHeapVersion(st, h)
			}
		}
		ft.bumpAlloc(st)
	}
	for _, l := range sortedKeys(li.modLoc) {
		if _, ok := st.locals[l]; ok {
			srt := ft.localSorts[l]
			sym := w.declConstRaw(w.fresh("L_"+l), srt.Name)
			st.locals[l] = sym
		}
	}
	li.hdrState = st
	return st
}

func predIndex(b, p *ssa.BasicBlock) int {
	for i, x := range b.Preds {
		if x == p {
			return i
		}
	}
	return -1
}

// assumeInvariants is called after the header phis have been declared.
func (ft *funcTrans) assumeInvariants(li *loopInfo) {
	w := ft.w
	if ft.hdrAssumed == nil {
		ft.hdrAssumed = map[*ssa.BasicBlock]bool{}
	}
	ft.hdrAssumed[li.header] = true
	if ft.c != nil && ft.c.HasAssigns {
		for _, h := range ft.loopFrameHeaps(li, li.hdrState) {
			if g := ft.frameGoal(li.hdrState, h); g != "" {
				ft.assume(g)
			}
		}
	}
	if li.lc == nil {
		return
	}
	env := ft.loopEnv(li, func(phi *ssa.Phi) Term { return ft.vals[phi].T })
	ft.assume(ft.w.arith(">=", env["#iter"], ft.w.intLit64(0, ft.w.goInt())).S)
	ec := &evalCtx{w: w, pkg: ft.pkgTypes(), env: env, st: li.hdrState, old: ft.entry, lets: ft.lets(), cells: ft.loopCells(li, env), ft: ft}
	for k, inv := range li.lc.Invariants {
		t := ec.evalBool(inv.E)
		w.curTag = fmt.Sprintf("inv:%d:%d", li.ordinal, k+1)
		ft.assume(t.S)
		w.curTag = ""
	}
	li.decVals = nil
	for _, dc := range li.lc.DecList {
		t := ec.concrete(ec.eval(dc.E))
		sym := w.declConstRaw(w.fresh("measure"), t.Sort.Name)
		w.addFact(fmt.Sprintf("(= %s %s)", sym, t.S))
		li.decVals = append(li.decVals, sym)
	}
}

// backEdge asserts invariant preservation and measure decrease.
func (ft *funcTrans) backEdge(from *ssa.BasicBlock, li *loopInfo, edgeCond string) {
	w := ft.w
	if ft.c != nil && ft.c.HasAssigns {
		saved := ft.reach[ft.cur]
		ft.reach[ft.cur] = edgeCond
		for _, h := range ft.loopFrameHeaps(li, ft.curSt) {
			if g := ft.frameGoal(ft.curSt, h); g != "" {
				ft.obligation("frame", fmt.Sprintf("loop%d.frame.%s.preserved@b%d", li.ordinal, h, from.Index), "loop keeps "+h+" within the assigns clause", g)
			}
		}
		ft.reach[ft.cur] = saved
	}
	if li.lc == nil {
		return
	}
	pi := predIndex(li.header, from)
	ft.iterMode = "back"
	env := ft.loopEnv(li, func(phi *ssa.Phi) Term {
		return ft.coerceTo(ft.termOf(phi.Edges[pi]), w.sortOf(phi.Type()))
	})
	ft.iterMode = ""
	ec := &evalCtx{w: w, pkg: ft.pkgTypes(), env: env, st: ft.curSt, old: ft.entry, lets: ft.lets(), cells: ft.loopCells(li, env), ft: ft}
	saved := ft.reach[ft.cur]
	ft.reach[ft.cur] = edgeCond
	for k, inv := range li.lc.Invariants {
		t := ec.evalBool(inv.E)
		o := ft.obligation("invariant", fmt.Sprintf("loop%d.inv%d.preserved@b%d", li.ordinal, k+1, from.Index), inv.Src, t.S)
		o.Focus = fmt.Sprintf("inv:%d:%d", li.ordinal, k+1)
		o.FocusSet = relatedInvariants(li, k)
	}
	if len(li.lc.IterPost) > 0 {
		env2 := ft.namesAt(ft.cur)
		for k2, v2 := range env {
			if _, ok := env2[k2]; !ok {
				env2[k2] = v2
			}
		}
		// x_head / athead(e): the value the loop variable x (the expression e) had when this iteration started
		henv := ft.loopEnv(li, func(phi *ssa.Phi) Term { return ft.vals[phi].T })
		for k2, v2 := range henv {
			if !strings.HasPrefix(k2, "#") {
				if _, ok := env2[k2+"_head"]; !ok {
					env2[k2+"_head"] = v2
				}
			}
		}
		ec2 := &evalCtx{w: w, pkg: ft.pkgTypes(), env: env2, st: ft.curSt, old: ft.entry, lets: ft.lets(), cells: ft.loopCells(li, env2), ft: ft, headSt: li.hdrState, headEnv: henv}
		for k, c := range li.lc.IterPost {
			var t Term
			skipped := false
			func() {
				defer func() {
					if r := recover(); r != nil {
						if ue, ok := r.(unsupportedErr); ok && strings.Contains(string(ue), "unknown identifier") {
							// a body variable of the clause is not declared on the path that ends in this back
							// edge (e.g. an early `continue`): nothing to require here; the clause must be
							// applicable at some back edge of the loop
							ft.notes = append(ft.notes, fmt.Sprintf("loop%d.iterpost%d not applicable at the back edge from b%d (%s)", li.ordinal, k+1, from.Index, string(ue)))
							skipped = true
							return
						}
						panic(r)
					}
				}()
				t = ec2.evalBool(c.E)
			}()
			if skipped {
				continue
			}
			if ft.iterpostOK == nil {
				ft.iterpostOK = map[string]bool{}
			}
			ft.iterpostOK[fmt.Sprintf("%d.%d", li.ordinal, k+1)] = true
			ft.obligation("iterpost", fmt.Sprintf("loop%d.iterpost%d@b%d", li.ordinal, k+1, from.Index), c.Src, t.S)
		}
	}
	if len(li.lc.OnSkip) > 0 {
		// an iteration that wrote nothing the loop can write: every heap of the loop's modification
		// set is what it was at the loop head and nothing was allocated (iterations usually end in one
		// common block, so this is a condition, not a syntactic fact)
		var same []string
		add := func(h string) {
			if _, ok := w.heapSorts[h]; !ok {
				return
			}
			a, b := w.heapSym(ft.curSt, h), w.heapSym(li.hdrState, h)
			if a != b {
				same = append(same, fmt.Sprintf("(= %s %s)", a, b))
			}
		}
		if li.modAll {
			for _, h := range ft.allHeaps() {
				add(h)
			}
		} else {
			for _, h := range sortedKeys(li.modHeaps) {
				add(h)
			}
		}
		if ft.curSt.alloc != li.hdrState.alloc {
			same = append(same, fmt.Sprintf("(= %s %s)", ft.curSt.alloc, li.hdrState.alloc))
		}
		cond := "true"
		if len(same) > 0 {
			cond = "(and " + strings.Join(same, " ") + ")"
		}
		// names of the loop body are in scope here (unlike in invariants)
		env2 := ft.namesAt(ft.cur)
		for k2, v2 := range env {
			if _, ok := env2[k2]; !ok {
				env2[k2] = v2
			}
		}
		ec2 := &evalCtx{w: w, pkg: ft.pkgTypes(), env: env2, st: ft.curSt, old: ft.entry, lets: ft.lets(), cells: ft.loopCells(li, env2), ft: ft}
		for k, c := range li.lc.OnSkip {
			t := ec2.evalBool(c.E)
			ft.obligation("onskip", fmt.Sprintf("loop%d.onskip%d@b%d", li.ordinal, k+1, from.Index), c.Src, fmt.Sprintf("(=> %s %s)", cond, t.S))
		}
	}
	if len(li.lc.DecList) > 0 {
		// lexicographic decrease: some component strictly decreases (and was >= 0), all earlier ones are unchanged
		var alts []string
		eqPrefix := "true"
		for k, dc := range li.lc.DecList {
			t := ec.concrete(ec.eval(dc.E))
			old := Term{li.decVals[k], t.Sort}
			z := w.zero(t.Sort)
			ge := w.arith(">=", old, z)
			lt := w.arith("<", t, old)
			alts = append(alts, fmt.Sprintf("(and %s %s %s)", eqPrefix, ge.S, lt.S))
			eqPrefix = fmt.Sprintf("(and %s (= %s %s))", eqPrefix, t.S, old.S)
		}
		ft.obligation("decreases", fmt.Sprintf("loop%d.decreases@b%d", li.ordinal, from.Index), li.lc.Decreases.Src,
			"(or "+strings.Join(alts, " ")+")")
	}
	ft.reach[ft.cur] = saved
}

// scanLoopMods computes which heaps and locals a loop may write.
func (ft *funcTrans) scanLoopMods(li *loopInfo) {
	for _, b := range ft.fn.Blocks {
		if !li.body[b] {
			continue
		}
		for _, in := range b.Instrs {
			ft.instrMods(in, li)
		}
	}
}

func (ft *funcTrans) instrMods(in ssa.Instruction, li *loopInfo) {
	w := ft.w
	switch x := in.(type) {
	case *ssa.Store:
		ft.addrMods(x.Addr, li)
	case *ssa.Alloc:
		if !x.Heap {
			li.modLoc[x.Name()] = true
			return
		}
		ft.wholeMods(x.Type().(*types.Pointer).Elem(), li)
	case *ssa.MapUpdate:
		mt := x.Map.Type().Underlying().(*types.Map)
		d, v := w.mapHeaps(w.sortOf(mt.Key()), w.sortOf(mt.Elem()))
		li.modHeaps[d] = true
		li.modHeaps[v] = true
	case *ssa.MakeMap:
		mt := x.Type().Underlying().(*types.Map)
		d, v := w.mapHeaps(w.sortOf(mt.Key()), w.sortOf(mt.Elem()))
		li.modHeaps[d] = true
		li.modHeaps[v] = true
	case *ssa.MakeSlice:
		es := w.sortOf(x.Type().Underlying().(*types.Slice).Elem())
		li.modHeaps[w.elemHeap(es)] = true
	case *ssa.Go:
		// the spawned goroutine is not modelled (sequential reasoning only): like outside loops,
		// the go statement itself changes nothing the spawning function can see
	case *ssa.Defer, *ssa.RunDefers:
		li.modAll = true
	case *ssa.Send, *ssa.Select:
		if srt, ok := w.P.Spec.Ghosts["sendAttempts"]; ok {
			w.heapSorts["G_ghost.sendAttempts"] = srt
			li.modHeaps["G_ghost.sendAttempts"] = true
		}
		if srt, ok := w.P.Spec.Ghosts["sentSet"]; ok {
			w.heapSorts["G_ghost.sentSet"] = srt
			li.modHeaps["G_ghost.sentSet"] = true
		}
		for name, srt := range w.P.Spec.Ghosts {
			if w.P.Spec.Async[name] {
				w.heapSorts["G_ghost."+name] = srt
				li.modHeaps["G_ghost."+name] = true
			}
		}
	case *ssa.UnOp:
		if x.Op == token.ARROW {
			for name, srt := range w.P.Spec.Ghosts {
				if w.P.Spec.Async[name] {
					w.heapSorts["G_ghost."+name] = srt
					li.modHeaps["G_ghost."+name] = true
				}
			}
		}
	case ssa.CallInstruction:
		com := x.Common()
		if bi, ok := com.Value.(*ssa.Builtin); ok {
			switch bi.Name() {
			case "append":
				es := w.sortOf(com.Args[0].Type().Underlying().(*types.Slice).Elem())
				li.modHeaps[w.elemHeap(es)] = true
			case "copy":
				es := w.sortOf(com.Args[0].Type().Underlying().(*types.Slice).Elem())
				li.modHeaps[w.elemHeap(es)] = true
			case "delete":
				mt := com.Args[0].Type().Underlying().(*types.Map)
				d, v := w.mapHeaps(w.sortOf(mt.Key()), w.sortOf(mt.Elem()))
				li.modHeaps[d] = true
				li.modHeaps[v] = true
			}
			return
		}
		callee := com.StaticCallee()
		if callee != nil && ft.isMarker(callee) {
			return
		}
		if callee != nil && strings.HasPrefix(callee.String(), "(*encoding/xml.Encoder).Encode") {
			if _, ok := w.P.Spec.Ghosts["emitN"]; ok {
				li.modHeaps["G_ghost.emitN"] = true
				li.modHeaps["G_ghost.emitName"] = true
				return
			}
		}
		c := ft.calleeContract(com)
		if (c == nil || !c.HasAssigns) && callee != nil && ft.p.writesOnlyFresh(callee) {
			return
		}
		if c != nil && len(c.Preserves) > 0 {
			for _, h := range ft.allHeaps() {
				if !preservedHeap(h, c.Preserves) {
					li.modHeaps[h] = true
				}
			}
			if !c.HasAssigns {
				return
			}
		} else if c == nil || !c.HasAssigns {
			li.modAll = true
			return
		}
		for _, a := range c.Assigns {
			for _, h := range ft.designatorHeaps(a.E, callee, com) {
				if h == "?opaque" {
					// the field heap of the opaque pointer argument(s)
					for _, arg := range com.Args {
						if fa, ok := arg.(*ssa.FieldAddr); ok {
							ft.addrMods(fa, li)
						}
					}
					continue
				}
				li.modHeaps[h] = true
			}
		}
	}
}

func (ft *funcTrans) wholeMods(t types.Type, li *loopInfo) {
	w := ft.w
	switch u := t.Underlying().(type) {
	case *types.Struct:
		if isNamed(t, "time", "Time") {
			li.modHeaps[w.cellHeap(w.sortOf(t))] = true
			return
		}
		ss := w.sortOf(t)
		for _, fi := range w.fieldsOf(ss) {
			li.modHeaps[w.fieldHeap(ss, fi)] = true
		}
	case *types.Array:
		li.modHeaps[w.elemHeap(w.sortOf(u.Elem()))] = true
	default:
		li.modHeaps[w.cellHeap(w.sortOf(t))] = true
	}
}

func (ft *funcTrans) addrMods(addr ssa.Value, li *loopInfo) {
	w := ft.w
	switch a := addr.(type) {
	case *ssa.FieldAddr:
		if isInterior(a.X) {
			ft.addrMods(a.X, li)
			return
		}
		st := a.X.Type().Underlying().(*types.Pointer).Elem()
		ss := w.sortOf(st)
		li.modHeaps[w.fieldHeap(ss, w.fieldsOf(ss)[a.Field])] = true
	case *ssa.IndexAddr:
		switch xt := a.X.Type().Underlying().(type) {
		case *types.Slice:
			li.modHeaps[w.elemHeap(w.sortOf(xt.Elem()))] = true
		case *types.Pointer:
			if isInterior(a.X) {
				ft.addrMods(a.X, li)
				return
			}
			li.modHeaps[w.elemHeap(w.sortOf(xt.Elem().Underlying().(*types.Array).Elem()))] = true
		}
	case *ssa.Alloc:
		if !a.Heap {
			li.modLoc[a.Name()] = true
			return
		}
		ft.wholeMods(a.Type().(*types.Pointer).Elem(), li)
	case *ssa.Global:
		s := w.sortOf(a.Type().(*types.Pointer).Elem())
		li.modHeaps[w.globalHeap(a.Pkg.Pkg, a.Name(), s)] = true
	default:
		ft.wholeMods(addr.Type().Underlying().(*types.Pointer).Elem(), li)
	}
}

// isInterior: address values that the generator tracks as access paths.
func isInterior(v ssa.Value) bool {
	switch a := v.(type) {
	case *ssa.FieldAddr, *ssa.IndexAddr:
		return true
	case *ssa.Alloc:
		return !a.Heap
	}
	return false
}

// ---- edges

func (ft *funcTrans) setEdges(b *ssa.BasicBlock, conds []string) {
	w := ft.w
	for i, s := range b.Succs {
		c := ft.reach[b]
		if conds[i] != "true" {
			if c == "true" {
				c = conds[i]
			} else {
				c = fmt.Sprintf("(and %s %s)", c, conds[i])
			}
		}
		name := w.declConstRaw(fmt.Sprintf("edge_%d_%d", b.Index, s.Index), "Bool")
		w.addFact(fmt.Sprintf("(= %s %s)", name, c))
		if ft.isBackEdge(b, s) {
			ft.backEdge(b, ft.loops[s], name)
			continue
		}
		ft.edges[[2]int{b.Index, s.Index}] = name
	}
}

func posStr(fset *token.FileSet, p token.Pos) string {
	if !p.IsValid() {
		return ""
	}
	ps := fset.Position(p)
	f := ps.Filename
	if i := strings.LastIndex(f, "/"); i >= 0 {
		f = f[i+1:]
	}
	return fmt.Sprintf("%s:%d", f, ps.Line)
}

// loopFrameHeaps: heaps for which the implicit frame invariant is stated.
func (ft *funcTrans) loopFrameHeaps(li *loopInfo, st *State) []string {
	m := map[string]bool{}
	if li.modAll {
		for _, h := range ft.allHeaps() {
			if _, ok := ft.w.heapSorts[h]; ok {
				m[h] = true
			}
		}
	} else {
		for h := range li.modHeaps {
			if _, ok := ft.w.heapSorts[h]; ok {
				m[h] = true
			}
		}
	}
	return sortedKeys(m)
}

var idxPatRe = regexp.MustCompile(`[A-Za-z_][A-Za-z0-9_.]*\[[a-z][A-Za-z0-9]*\]`)

// relatedInvariants: tags of the invariants of li kept when proving
// preservation of invariant k in the focused (small-context) query variant:
// k itself, unquantified invariants, and quantified invariants that talk
// about the same indexed collection (textually, e.g. "o.Ways[k]").
func relatedInvariants(li *loopInfo, k int) map[string]bool {
	set := map[string]bool{}
	mine := map[string]bool{}
	for _, m := range idxPatRe.FindAllString(li.lc.Invariants[k].Src, -1) {
		mine[m] = true
	}
	for j, inv := range li.lc.Invariants {
		tag := fmt.Sprintf("inv:%d:%d", li.ordinal, j+1)
		if j == k || !strings.Contains(inv.Src, "forall") {
			set[tag] = true
			continue
		}
		for _, m := range idxPatRe.FindAllString(inv.Src, -1) {
			if mine[m] {
				set[tag] = true
			}
		}
	}
	return set
}

// namesAtHeader: source-level names of values defined in blocks that strictly dominate b.
func (ft *funcTrans) namesAtHeader(hdr *ssa.BasicBlock) map[string]Term {
	env := map[string]Term{}
	li := &loopInfo{header: hdr}
	// source-level names of values defined in blocks that dominate the header
	var doms []*ssa.BasicBlock
	for _, b := range ft.fn.Blocks {
		if b != li.header && b.Dominates(li.header) {
			doms = append(doms, b)
		}
	}
	depth := func(b *ssa.BasicBlock) int {
		n := 0
		for x := b; x != nil; x = x.Idom() {
			n++
		}
		return n
	}
	sort.Slice(doms, func(i, j int) bool { return depth(doms[i]) < depth(doms[j]) })
	for _, b := range doms {
		for _, in := range b.Instrs {
			if phi, isPhi := in.(*ssa.Phi); isPhi {
				if phi.Comment != "" && phi.Comment != "rangeindex" {
					if v, ok := ft.vals[phi]; ok && v.L == nil && v.Tup == nil && v.Bad == "" {
						// a reassigned parameter: the name denotes the current value (name0 is the entry value)
						env[phi.Comment] = v.T
					}
				}
				continue
			}
			dr, ok := in.(*ssa.DebugRef)
			if !ok || dr.IsAddr {
				continue
			}
			id, ok := dr.Expr.(*ast.Ident)
			if !ok {
				continue
			}
			if v, ok := ft.vals[dr.X]; ok && v.L == nil && v.Tup == nil && v.Bad == "" {
				_, isParam := ft.env[id.Name]
				if isParam {
					// only a reference to the parameter itself (not a shadowing variable) rebinds its name
					isParam = true
					for _, prm := range ft.fn.Params {
						if prm.Name() == id.Name && prm.Object() == dr.Object() {
							isParam = false
						}
					}
				}
				if !isParam {
					if _, isCell := ft.envCells[id.Name]; !isCell {
						env[id.Name] = v.T
					}
				}
			} else if c, ok := dr.X.(*ssa.Const); ok {
				_ = c
				env[id.Name] = ft.valOf(dr.X).T
			}
		}
	}
	return env
}

// namesAt: params plus names visible at block b (dominating definitions and b's own so far).
func (ft *funcTrans) namesAt(b *ssa.BasicBlock) map[string]Term {
	env := map[string]Term{}
	for k, v := range ft.env {
		env[k] = v
	}
	for k, v := range ft.namesAtHeader(b) {
		env[k] = v
	}
	if b != nil {
		// ghost iteration counter of the innermost loop containing b
		var inner *loopInfo
		for _, li := range ft.loopList {
			if li.body[b] && (inner == nil || len(li.body) < len(inner.body)) {
				inner = li
			}
		}
		if inner != nil {
			env["#iter"] = ft.w.declConst(fmt.Sprintf("iter!loop%d", inner.ordinal), ft.w.goInt())
		}
		for _, in := range b.Instrs {
			switch x := in.(type) {
			case *ssa.Phi:
				if x.Comment != "" && x.Comment != "rangeindex" {
					if v, ok := ft.vals[x]; ok && v.L == nil && v.Tup == nil && v.Bad == "" {
						env[x.Comment] = v.T
					}
				}
			case *ssa.DebugRef:
				if x.IsAddr {
					continue
				}
				if id, ok := x.Expr.(*ast.Ident); ok {
					if _, isCell := ft.envCells[id.Name]; isCell {
						continue
					}
					if v, ok := ft.vals[x.X]; ok && v.L == nil && v.Tup == nil && v.Bad == "" {
						env[id.Name] = v.T
					}
				}
			}
		}
	}
	return env
}

// isRangeIndexPhi: entry operand is the constant -1 and every other operand is phi+1.
func isRangeIndexPhi(phi *ssa.Phi) bool {
	sawInit := false
	for _, e := range phi.Edges {
		if c, ok := e.(*ssa.Const); ok {
			if v, ok2 := constant.Int64Val(c.Value); ok2 && v == -1 {
				sawInit = true
				continue
			}
			return false
		}
		bo, ok := e.(*ssa.BinOp)
		if !ok || bo.Op != token.ADD || bo.X != phi {
			return false
		}
		c, ok := bo.Y.(*ssa.Const)
		if !ok {
			return false
		}
		if v, ok2 := constant.Int64Val(c.Value); !ok2 || v != 1 {
			return false
		}
	}
	return sawInit
}

// loopCells: the cells visible in the invariants of li: captured variables of this closure and
// address-taken / captured local variables declared before the loop. Their names denote the
// current content, so stale value bindings of the same names are removed from env.
func (ft *funcTrans) loopCells(li *loopInfo, env map[string]Term) map[string]*Loc {
	cells := ft.localCells(li.header)
	for name := range cells {
		if _, captured := ft.envCells[name]; !captured {
			delete(env, name)
		}
	}
	return cells
}
