package main

// C03 structural obligation (no SMT): the struct tags the XML decoder works
// from carry the element and attribute names of the OSM XML format
// (spec/C03.format.json, transcribed from the format documentation).

import (
	"encoding/json"
	"fmt"
	"go/types"
	"os"
	"path/filepath"
	"reflect"
	"sort"
	"strings"

	"golang.org/x/tools/go/packages"
)

func init() {
	extraCheckers["c03format"] = func(prog *Program, o *CheckOpts) []ExtraResult {
		return checkFormatTable(prog, o, "C03", "xml", "OSM XML format")
	}
	// the same for osmjson: spec/C05.format.json, json struct tags (kind "key")
	extraCheckers["c05format"] = func(prog *Program, o *CheckOpts) []ExtraResult {
		return checkFormatTable(prog, o, "C05", "json", "osmjson format")
	}
}

func checkFormatTable(prog *Program, o *CheckOpts, prop, tagKey, what string) []ExtraResult {
	var out []ExtraResult
	add := func(name, clause string, ok bool, detail string) {
		out = append(out, ExtraResult{Name: "(schema)" + prop + "#format." + name, Kind: "schema", Clause: clause, OK: ok, Engine: "govc-schema", Detail: detail})
	}
	raw, err := os.ReadFile(filepath.Join(o.Verif, "spec", prop+".format.json"))
	if err != nil {
		add("table", "the format table is readable", false, err.Error())
		return out
	}
	var table map[string]json.RawMessage
	if err := json.Unmarshal(raw, &table); err != nil {
		add("table", "the format table parses", false, err.Error())
		return out
	}
	var root *packages.Package
	seen := map[string]bool{}
	var walk func(pk *packages.Package)
	walk = func(pk *packages.Package) {
		if seen[pk.PkgPath] {
			return
		}
		seen[pk.PkgPath] = true
		if pk.PkgPath == modPath {
			root = pk
		}
		for _, im := range pk.Imports {
			walk(im)
		}
	}
	for _, pk := range prog.Pkgs {
		walk(pk)
	}
	if root == nil || root.Types == nil {
		add("packages", "package osm is loaded", false, "package not loaded")
		return out
	}
	var typeNames []string
	for tn := range table {
		if !strings.HasPrefix(tn, "_") {
			typeNames = append(typeNames, tn)
		}
	}
	sort.Strings(typeNames)
	n := 0
	for _, tn := range typeNames {
		var fields map[string]string
		if err := json.Unmarshal(table[tn], &fields); err != nil {
			add(tn, "table entry parses", false, err.Error())
			continue
		}
		obj := root.Types.Scope().Lookup(tn)
		if obj == nil {
			add(tn, "type "+tn+" exists", false, "no such type in package osm")
			continue
		}
		st, ok := obj.Type().Underlying().(*types.Struct)
		if !ok {
			add(tn, "type "+tn+" is a struct", false, "not a struct")
			continue
		}
		var fnames []string
		for f := range fields {
			fnames = append(fnames, f)
		}
		sort.Strings(fnames)
		for _, fname := range fnames {
			want := strings.Fields(fields[fname]) // kind, name
			if len(want) != 2 {
				add(tn+"."+fname, "table entry is `kind name`", false, fields[fname])
				continue
			}
			tag, found := "", false
			for i := 0; i < st.NumFields(); i++ {
				if st.Field(i).Name() == fname {
					tag, found = reflect.StructTag(st.Tag(i)).Get(tagKey), true
				}
			}
			parts := strings.Split(tag, ",")
			isAttr := false
			for _, p := range parts[1:] {
				if p == "attr" {
					isAttr = true
				}
			}
			n++
			okTag := found && parts[0] == want[1] && (want[0] == "key" || isAttr == (want[0] == "attr"))
			add(tn+"."+fname, fmt.Sprintf("%s.%s is the %s %q of the %s", tn, fname, map[string]string{"attr": "attribute", "elem": "child element", "key": "key"}[want[0]], want[1], what), okTag, fmt.Sprintf("struct tag `%s:%q`", tagKey, tag))
		}
	}
	add("count", "the format table has entries", n > 0, fmt.Sprintf("%d fields compared", n))
	return out
}
