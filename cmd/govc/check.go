package main

import (
	"context"
	"encoding/json"
	"fmt"
	"os"
	"path/filepath"
	"sort"
	"strings"
	"sync"
	"time"

	"golang.org/x/tools/go/ssa"
)

type CheckOpts struct {
	Prop, Tier, Repo, Verif string
	Seed                    int
	Only                    string
	Keep                    string
	NoEvidence              bool
}

type PropConfig struct {
	Pkgs        []string `json:"pkgs"`
	Spec        []string `json:"spec"`
	Level       string   `json:"level"`
	TrustedBase []string `json:"trusted_base"`
	Explanation string   `json:"explanation"`
	Extra       []string `json:"extra"`
	NotDecided  []string `json:"not_decided"`
}

type KnownFinding struct {
	Property   string `json:"property"`
	Obligation string `json:"obligation"`
	Text       string `json:"text"`
	Witness    string `json:"witness,omitempty"`
}

type KnownFile struct {
	Findings []KnownFinding `json:"findings"`
	Fixed    []string       `json:"fixed"`
}

type oblResult struct {
	O   *Obligation
	R   SolveResult
	Key string
}

func loadPropConfig(verif, prop string) (*PropConfig, error) {
	b, err := os.ReadFile(filepath.Join(verif, "spec", "properties.json"))
	if err != nil {
		return nil, err
	}
	var m map[string]*PropConfig
	if err := json.Unmarshal(b, &m); err != nil {
		return nil, fmt.Errorf("properties.json: %v", err)
	}
	pc := m[prop]
	if pc == nil {
		return nil, fmt.Errorf("property %s not configured", prop)
	}
	return pc, nil
}

func loadKnown(verif string) *KnownFile {
	kf := &KnownFile{}
	b, err := os.ReadFile(filepath.Join(verif, "known_findings.json"))
	if err == nil {
		_ = json.Unmarshal(b, kf)
	}
	return kf
}

func runCheck(o *CheckOpts) int {
	start := time.Now()
	pc, err := loadPropConfig(o.Verif, o.Prop)
	if err != nil {
		fmt.Println("ERROR:", err)
		return 2
	}
	spec, err := loadSpecs(o.Verif, pc.Spec)
	if err != nil {
		fmt.Println("ERROR:", err)
		return 2
	}
	prog, err := loadProgram(o.Repo, o.Verif, pc.Pkgs)
	if err != nil {
		fmt.Println("ERROR: cannot load repository:", err)
		return 2
	}
	prog.Spec = spec
	known := loadKnown(o.Verif)

	fns := prog.funcsWithProp(o.Prop)
	if o.Only != "" {
		var f2 []*ssa.Function
		for _, f := range fns {
			if strings.Contains(f.String(), o.Only) {
				f2 = append(f2, f)
			}
		}
		fns = f2
	}
	tmp := o.Keep
	if tmp == "" {
		tmp, err = os.MkdirTemp("", "govc-"+o.Prop+"-")
		if err != nil {
			fmt.Println("ERROR:", err)
			return 2
		}
		defer os.RemoveAll(tmp)
	} else {
		os.MkdirAll(tmp, 0o755)
	}

	timeout := 15
	all := false
	if o.Tier == "thorough" {
		timeout = 60
		all = true
	}

	// translate functions in parallel
	type fres struct {
		fn  *ssa.Function
		res *FuncResult
	}
	results := make([]*fres, len(fns))
	var wg sync.WaitGroup
	sem := make(chan struct{}, 16)
	for i, fn := range fns {
		wg.Add(1)
		go func(i int, fn *ssa.Function) {
			defer wg.Done()
			sem <- struct{}{}
			defer func() { <-sem }()
			results[i] = &fres{fn, verifyFunction(prog, fn, prog.contractFor(fn))}
		}(i, fn)
	}
	wg.Wait()

	var obls []*Obligation
	var outside []string
	assumptions := map[string]bool{}
	var notes []string
	funcsUnder := []string{}
	for _, r := range results {
		funcsUnder = append(funcsUnder, r.fn.String())
		if r.res.Err != "" {
			outside = append(outside, r.fn.String()+": "+r.res.Err)
			continue
		}
		obls = append(obls, r.res.Obls...)
		for a := range r.res.World.assumptions {
			assumptions[a] = true
		}
		for _, u := range r.res.Unsupported {
			assumptions["abstracted: "+u] = true
		}
		notes = append(notes, r.res.Notes...)
	}
	// solve (each obligation races three solvers: keep the number of concurrent obligations below cores/3)
	ores := make([]*oblResult, len(obls))
	ssem := make(chan struct{}, 6)
	for i, ob := range obls {
		wg.Add(1)
		go func(i int, ob *Obligation) {
			defer wg.Done()
			ssem <- struct{}{}
			defer func() { <-ssem }()
			qt := ob.W.queryText(ob, false)
			var r SolveResult
			if ob.Probe {
				// must-fail probe: one short attempt with all solvers; only "unsat" is meaningful
				r = solve(qt, tmp, ob.Name+".probe", 2, o.Seed, true)
			} else if ob.Cover {
				// vacuity covers: a quick single-solver attempt; only "unsat" is meaningful
				file := filepath.Join(tmp, sanitizeFile(ob.Name)+".smt2")
				os.WriteFile(file, []byte(qt), 0o644)
				r = runSolver(context.Background(), solvers[0], file, 3, o.Seed)
			} else {
				done := false
				if ob.Focus != "" {
					// focused variant first (smaller context); only unsat is conclusive
					qf := ob.W.queryTextV(ob, false, true)
					rf := solve(qf, tmp, ob.Name+".focus", 6, o.Seed, false)
					if rf.Status == "unsat" {
						rf.Tried = append([]string{"focused"}, rf.Tried...)
						r = rf
						done = true
					}
				}
				if !done {
					// escalating attempts with different seeds: short, medium, long
					var tried []string
					steps := []int{timeout / 2, timeout * 2, timeout * 5}
					if o.Tier == "thorough" {
						steps = []int{timeout, timeout * 3}
					}
					if os.Getenv("GOVC_FAST") != "" {
						steps = steps[:1] // development aid: a single short attempt
					}
					if kf := knownObl(known, o.Prop, ob.Name); kf {
						steps = steps[:1] // recorded finding: one attempt is enough to see whether it still fails
					}
					for k, tmo := range steps {
						q := qt
						if k == len(steps)-1 {
							q = ob.W.queryText(ob, true)
						}
						r = solve(q, tmp, fmt.Sprintf("%s.a%d", ob.Name, k), tmo, o.Seed+k, all && k == 0)
						tried = append(tried, r.Tried...)
						if r.Status == "unsat" || r.Status == "sat" {
							break
						}
						if k == 0 && !ob.Cover {
							// cone-of-influence slices of growing depth: only unsat is conclusive
							for _, d := range []int{2, 3, 5} {
								rs := solve(ob.W.queryTextS(ob, false, false, d), tmp, fmt.Sprintf("%s.s%d", ob.Name, d), tmo, o.Seed, false)
								if rs.Status == "unsat" {
									rs.Tried = append(tried, append([]string{fmt.Sprintf("sliced(depth %d)", d)}, rs.Tried...)...)
									r = rs
									break
								}
							}
							if r.Status == "unsat" {
								tried = r.Tried
								break
							}
						}
						// every solver gave up quickly (unknown, no timeout): more time will not help
						gaveUp := true
						for _, tr := range r.Tried {
							if strings.Contains(tr, ":timeout:") {
								gaveUp = false
							}
						}
						if gaveUp && k >= 1 {
							break
						}
					}
					if r.Status == "sat" {
						// obtain a model
						rm := solve(ob.W.queryText(ob, true), tmp, ob.Name+".model", timeout*2, o.Seed, false)
						if rm.Status == "sat" {
							rm.Tried = tried
							r = rm
						}
					}
					r.Tried = tried
				}
			}
			ores[i] = &oblResult{O: ob, R: r}
		}(i, ob)
	}
	wg.Wait()

	// extra checkers (schema tables, structural) contribute obligations of their own
	extraRes := runExtraCheckers(prog, pc, o)
	extraRes = append(extraRes, runSpecLemmas(prog, o, tmp, timeout)...)

	// classify
	violations := 0
	discharged := 0
	total := 0
	covers := 0
	coverFail := []string{}
	perSolver := map[string]int{}
	solverSeconds := 0.0
	var samples []map[string]interface{}
	var failed []*oblResult
	knownHit := map[string]bool{}
	isKnown := func(name string) *KnownFinding {
		for i := range known.Findings {
			k := &known.Findings[i]
			if k.Property != o.Prop {
				continue
			}
			// a finding names an obligation, with or without the "@b<block>" suffix of a return site
			if k.Obligation == name || (!strings.Contains(k.Obligation, "@") && strings.HasPrefix(name, k.Obligation+"@")) {
				return k
			}
		}
		return nil
	}
	knownCount := 0
	probes := 0
	var probeFail []string
	for _, r := range ores {
		solverSeconds += r.R.Seconds
		if r.O.Probe {
			probes++
			if r.R.Status == "unsat" {
				probeFail = append(probeFail, r.O.Name)
			}
			continue
		}
		if r.O.Cover {
			covers++
			if r.R.Status == "unsat" {
				coverFail = append(coverFail, r.O.Name)
			}
			continue
		}
		total++
		if r.R.Status == "unsat" {
			discharged++
			perSolver[r.R.Solver]++
			if len(samples) < 6 {
				samples = append(samples, map[string]interface{}{"obligation": r.O.Name, "kind": r.O.Kind, "clause": r.O.Clause, "solver": r.R.Solver, "seconds": round3(r.R.Seconds)})
			}
			continue
		}
		if k := isKnown(r.O.Name); k != nil {
			knownHit[k.Obligation] = true
			knownCount++
			continue
		}
		failed = append(failed, r)
	}
	for _, er := range extraRes {
		total++
		if er.OK {
			discharged++
			perSolver[er.Engine]++
			if len(samples) < 8 {
				samples = append(samples, map[string]interface{}{"obligation": er.Name, "kind": er.Kind, "clause": er.Clause, "solver": er.Engine})
			}
		} else if k := isKnown(er.Name); k != nil {
			knownHit[k.Obligation] = true
			knownCount++
		} else {
			failed = append(failed, &oblResult{O: &Obligation{Name: er.Name, Kind: er.Kind, Clause: er.Clause, Where: er.Where}, R: SolveResult{Status: "refuted", Solver: er.Engine, Output: er.Detail}})
		}
	}

	oracleCache := map[string]*oracleOutcome{}
	replayDir := filepath.Join(o.Verif, "out", "replay", o.Prop)
	emit := func(ob *Obligation, name, kind, clause, where, status, solver, output string, tried []string) {
		violations++
		os.MkdirAll(replayDir, 0o755)
		path := filepath.Join(replayDir, sanitizeFile(name)+".json")
		rep := map[string]interface{}{
			"property": o.Prop, "obligation": name, "kind": kind, "clause": clause, "where": where,
			"solver_status": status, "solver": solver, "solver_output": truncate(output, 20000), "tried": tried,
			"repo": o.Repo,
		}
		confirmed := false
		if status == "sat" {
			if ob != nil {
				confirmed = tryReplay(o, prog, ob, rep)
			}
		}
		if !confirmed && ob != nil {
			// counterexample search on the real code with the property's executable oracles
			okey := ob.Func
			if okey == "" {
				okey = name // structural obligations have no function: oracles name them in `covers`
			}
			oracles := prog.oraclesFor(o.Prop, okey)
			if len(oracles) > 0 {
				var names []string
				for _, f := range oracles {
					names = append(names, f.Name())
				}
				sort.Strings(names)
				key := strings.Join(names, ",")
				res, done := oracleCache[key]
				if !done {
					budget := 5
					if o.Tier == "thorough" {
						budget = 30
					}
					hit, why := runOracles(o, prog, oracles, budget)
					res = &oracleOutcome{hit, why}
					oracleCache[key] = res
				}
				if res.hit != nil {
					confirmed = true
					rep["counterexample"] = map[string]string{"oracle": res.hit.Oracle, "failing_assert": res.hit.Where, "input": res.hit.Input, "iteration": res.hit.Iter}
					rep["replay"] = "oracle " + res.hit.Oracle + " (executable transcription of the property) fails on the real code at " + res.hit.Where + " for the recorded input"
					rep["replay_output"] = res.hit.Output
				} else {
					rep["oracle_search"] = res.why
				}
			}
		}
		if status == "refuted" && !confirmed {
			// structural/schema checkers point at the concrete site in the real code, but that is not a
			// failing input: the line still says so
			rep["replay"] = "structural refutation at the recorded source position; no input involved"
		}
		rep["confirmed_on_real_code"] = confirmed
		b, _ := json.MarshalIndent(rep, "", " ")
		os.WriteFile(path, b, 0o644)
		suffix := ""
		if !confirmed {
			suffix = " no-failing-input-found"
		}
		fmt.Printf("VIOLATION property=%s replay=%s obligation=%s status=%s%s\n", o.Prop, path, name, status, suffix)
	}
	{
		var files []string
		for f := range prog.DroppedLemmas {
			files = append(files, f)
		}
		sort.Strings(files)
		for _, f := range files {
			// the oracles that still compile are tried for a failing input
			ob := &Obligation{Name: "lemmas/" + filepath.Base(f) + "#compiles", Kind: "harness", Func: "*"}
			emit(ob, ob.Name, "harness", "the lemma file compiles against the current tree (every function it names exists)", f, "does not compile", "go/types", prog.DroppedLemmas[f], nil)
		}
	}
	for _, m := range prog.missingTargets(o.Prop) {
		if o.Only != "" {
			continue
		}
		emit(nil, m+"#target", "target", "contract target exists", "", "contract target not found", "", "", nil)
	}
	for _, out := range outside {
		emit(nil, strings.SplitN(out, ": ", 2)[0]+"#subset", "subset", "function within the modelled subset", "", "outside subset", "", out, nil)
	}
	sort.Slice(failed, func(i, j int) bool { return failed[i].O.Name < failed[j].O.Name })
	for _, r := range failed {
		emit(r.O, r.O.Name, r.O.Kind, r.O.Clause, r.O.Where, r.R.Status, r.R.Solver, r.R.Output, r.R.Tried)
	}
	for _, k := range known.Findings {
		if k.Property == o.Prop && knownHit[k.Obligation] {
			fmt.Printf("KNOWN-FINDING: property=%s %s (obligation %s)\n", o.Prop, k.Text, k.Obligation)
		}
	}
	if total == 0 && o.Only == "" {
		emit(nil, "no-obligations", "vacuity", "at least one obligation generated", "", "no obligations", "", "", nil)
	}
	probesForEvidence = probes
	for _, pf := range probeFail {
		emit(nil, pf, "vacuity", "the assumptions on the path to this return are consistent (false is not provable there)", "", "false is provable: assumptions contradictory, everything proved at this return is vacuous", "", "", nil)
	}
	for _, cf := range coverFail {
		notes = append(notes, "vacuity warning: cover "+cf+" is unsatisfiable")
		if strings.Contains(cf, "#requires-sat") {
			emit(nil, cf, "vacuity", "preconditions satisfiable", "", "unsat", "", "", nil)
		}
	}

	// slowest obligations (stability watch)
	{
		// real obligations only: covers and probes are single short attempts whose timeouts say nothing
		var sorted []*oblResult
		escalatedForEvidence = nil
		for _, or := range ores {
			if or.O.Cover || or.O.Probe {
				continue
			}
			sorted = append(sorted, or)
			// discharged, but not by the first full attempt: a stability risk worth knowing about
			if or.R.Status == "unsat" {
				for _, tr := range or.R.Tried {
					if strings.HasPrefix(tr, "sliced(") || strings.Contains(tr, ":timeout:") {
						escalatedForEvidence = append(escalatedForEvidence, map[string]interface{}{"obligation": or.O.Name, "attempts": or.R.Tried})
						fmt.Printf("escalated: %s [%s]\n", or.O.Name, strings.Join(or.R.Tried, " "))
						break
					}
				}
			}
		}
		sort.Slice(sorted, func(i, j int) bool { return sorted[i].R.Seconds > sorted[j].R.Seconds })
		for i := 0; i < len(sorted) && i < 3; i++ {
			if sorted[i].R.Seconds > 2 {
				fmt.Printf("slow: %.1fs %s %s [%s]\n", sorted[i].R.Seconds, sorted[i].R.Status, sorted[i].O.Name, strings.Join(sorted[i].R.Tried, " "))
			}
		}
		slowestForEvidence = nil
		for i := 0; i < len(sorted) && i < 5; i++ {
			slowestForEvidence = append(slowestForEvidence, map[string]interface{}{"obligation": sorted[i].O.Name, "seconds": round3(sorted[i].R.Seconds), "status": sorted[i].R.Status, "attempts": sorted[i].R.Tried})
		}
	}
	wall := time.Since(start).Seconds()
	fmt.Printf("property %s tier %s: %d functions, %d obligations, %d discharged, %d known findings, %d violations, %d covers, %.1fs wall, %.1fs solver\n",
		o.Prop, o.Tier, len(fns), total, discharged, knownCount, violations, covers, wall, solverSeconds)

	var selfRes []selfResult
	if o.Tier == "thorough" && o.Only == "" && !o.NoEvidence {
		// exploration with the executable oracles on the tree at hand
		if oracles := prog.oraclesFor(o.Prop, "*"); len(oracles) > 0 && os.Getenv("GOVC_NO_ORACLE") == "" {
			for _, f := range oracles {
				if knownOracle(known, o.Prop, f.Name()) {
					notes = append(notes, "oracle "+f.Name()+" demonstrates a recorded finding; not run as exploration")
					continue
				}
				hit, why := runOracles(o, prog, []*ssa.Function{f}, 20)
				if hit != nil {
					violations++
					path := filepath.Join(o.Verif, "out", "replay", o.Prop, "oracle-"+f.Name()+".json")
					os.MkdirAll(filepath.Dir(path), 0o755)
					rep := map[string]interface{}{"property": o.Prop, "obligation": "oracle:" + f.Name(), "kind": "oracle-exploration", "repo": o.Repo,
						"counterexample": map[string]string{"oracle": hit.Oracle, "failing_assert": hit.Where, "input": hit.Input, "iteration": hit.Iter},
						"replay": "oracle " + hit.Oracle + " fails on the real code at " + hit.Where + " for the recorded input", "replay_output": hit.Output, "confirmed_on_real_code": true}
					b, _ := json.MarshalIndent(rep, "", " ")
					os.WriteFile(path, b, 0o644)
					fmt.Printf("VIOLATION property=%s replay=%s obligation=oracle:%s status=oracle-failed\n", o.Prop, path, f.Name())
				} else {
					notes = append(notes, "oracle exploration "+f.Name()+": "+why)
				}
			}
		}
		selfRes = runSelftest(o)
		for _, r := range selfRes {
			switch {
			case r.Caught:
				fmt.Printf("selftest: caught %s (%s)\n", r.Name, r.Detail)
			case strings.HasPrefix(r.Detail, "not applicable") || strings.HasPrefix(r.Detail, "mutant does not build"):
				fmt.Printf("selftest: skipped %s (%s)\n", r.Name, r.Detail)
			default:
				fmt.Printf("SELFTEST-MISS property=%s %s survived the quick check\n", o.Prop, r.Name)
			}
		}
	}
	selftestResults = selfRes
	if !o.NoEvidence && o.Only == "" {
		writeEvidence(o, pc, funcsUnder, total, discharged, knownCount, violations, covers, coverFail, perSolver, solverSeconds, samples, assumptions, notes, outside, wall, extraRes)
	}
	if violations > 0 {
		return 1
	}
	return 0
}

var selftestResults []selfResult

func knownOracle(k *KnownFile, prop, oracle string) bool {
	for _, f := range k.Findings {
		if f.Property == prop && strings.Contains(f.Witness+" "+f.Text, oracle) {
			return true
		}
	}
	return false
}

func round3(f float64) float64 { return float64(int(f*1000)) / 1000 }

func truncate(s string, n int) string {
	if len(s) > n {
		return s[:n] + "...[truncated]"
	}
	return s
}

// the five slowest obligations of the run (stability watch), for the evidence file
var slowestForEvidence []map[string]interface{}
var escalatedForEvidence []map[string]interface{}

// number of must-fail probes (goal false at every return) run; a provable one is a violation
var probesForEvidence int

func writeEvidence(o *CheckOpts, pc *PropConfig, funcs []string, total, discharged, knownCount, violations, covers int, coverFail []string,
	perSolver map[string]int, solverSeconds float64, samples []map[string]interface{}, assumptions map[string]bool, notes, outside []string, wall float64, extra []ExtraResult) {
	level := pc.Level
	if level == "" {
		level = "proof"
	}
	var as []string
	as = append(as, sortedKeys(assumptions)...)
	as = append(as,
		"verifier: govc (this repository's /verif/cmd/govc: SSA->SMT translation, memory model, contract parser), go/packages, go/ssa, and the solvers' unsat answers",
		"machine integers treated as mathematical integers in int mode (no overflow); float64 as exact reals; time.Time as an integer instant",
		"each function verified sequentially; goroutine interleavings are not modelled")
	for _, n := range notes {
		as = append(as, "note: "+n)
	}
	for _, nd := range pc.NotDecided {
		as = append(as, "not decided: "+nd)
	}
	cov := map[string]interface{}{
		// obligations listed in known_findings.json are reported as KNOWN-FINDING lines, not as proved:
		// they are excluded from both counts and given separately
		"obligations":              total - knownCount,
		"discharged":               discharged,
		"obligations_generated":    total,
		"delimited_by_known_finding": knownCount,
		"checker_cmd":              fmt.Sprintf("./bin/govc check --property %s --tier %s", o.Prop, o.Tier),
		"trusted_base":             pc.TrustedBase,
		"functions_under_contract": funcs,
		"functions_count":          len(funcs),
		"per_backend":              perSolver,
		"solver_seconds":           round3(solverSeconds),
		"samples":                  samples,
		"slowest_obligations":      slowestForEvidence,
		"escalated_obligations":    escalatedForEvidence,
		"vacuity_probes":           probesForEvidence,
		"vacuity_covers":           covers,
		"vacuity_cover_failures":   coverFail,
		"outside_subset":           outside,
		"explanation":              pc.Explanation,
	}
	if len(selftestResults) > 0 {
		k := 0
		for _, r := range selftestResults {
			if r.Caught {
				k++
			}
		}
		cov["selftest_mutants"] = len(selftestResults)
		cov["selftest_caught"] = k
		cov["selftest"] = selftestResults
	}
	if len(extra) > 0 {
		n := 0
		for _, e := range extra {
			if e.OK {
				n++
			}
		}
		cov["extra_checker_obligations"] = len(extra)
		cov["extra_checker_discharged"] = n
	}
	ev := map[string]interface{}{
		"property_id": o.Prop,
		"tier":        o.Tier,
		"seed":        o.Seed,
		"level":       level,
		"coverage":    cov,
		"assumptions": as,
		"wall_s":      round3(wall),
		"violations":  violations,
	}
	b, _ := json.MarshalIndent(ev, "", " ")
	os.MkdirAll(filepath.Join(o.Verif, "evidence"), 0o755)
	os.WriteFile(filepath.Join(o.Verif, "evidence", o.Prop+".json"), b, 0o644)
}

func runDump(prop, fnSub, oblSub, repo, verif string) int {
	pc, err := loadPropConfig(verif, prop)
	if err != nil {
		fmt.Println("ERROR:", err)
		return 2
	}
	spec, err := loadSpecs(verif, pc.Spec)
	if err != nil {
		fmt.Println("ERROR:", err)
		return 2
	}
	prog, err := loadProgram(repo, verif, pc.Pkgs)
	if err != nil {
		fmt.Println("ERROR:", err)
		return 2
	}
	prog.Spec = spec
	for key, fn := range prog.Funcs {
		if fnSub == "" || !strings.Contains(key, fnSub) {
			continue
		}
		if oblSub == "" {
			fn.WriteTo(os.Stdout)
		}
		c := prog.contractFor(fn)
		res := verifyFunction(prog, fn, c)
		if res.Err != "" {
			fmt.Println("OUTSIDE SUBSET:", res.Err)
			continue
		}
		for _, ob := range res.Obls {
			if oblSub == "" {
				fmt.Println("obligation:", ob.Name, "::", ob.Clause)
				continue
			}
			if strings.Contains(ob.Name, oblSub) {
				fmt.Println("; obligation:", ob.Name)
				fmt.Println(ob.W.queryText(ob, true))
			}
		}
	}
	return 0
}

type oracleOutcome struct {
	hit *oracleHit
	why string
}

func knownObl(known *KnownFile, prop, name string) bool {
	for _, k := range known.Findings {
		if k.Property != prop {
			continue
		}
		if k.Obligation == name || (!strings.Contains(k.Obligation, "@") && strings.HasPrefix(name, k.Obligation+"@")) {
			return true
		}
	}
	return false
}
