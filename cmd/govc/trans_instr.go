package main

import (
	"fmt"
	"sort"
	"go/constant"
	"go/token"
	"go/types"
	"strings"

	"golang.org/x/tools/go/ssa"
)

func (ft *funcTrans) valOf(v ssa.Value) *Val {
	w := ft.w
	if x, ok := ft.vals[v]; ok {
		return x
	}
	switch c := v.(type) {
	case *ssa.Const:
		s := w.sortOf(c.Type())
		if c.Value == nil {
			return &Val{T: w.zero(s)}
		}
		return &Val{T: w.constTerm(c.Value, c.Type())}
	case *ssa.Global:
		if isSentinelError(c.Pkg.Pkg.Path(), c.Name(), c.Type().(*types.Pointer).Elem()) {
			return &Val{L: &Loc{Kind: LSentinel, Heap: c.Pkg.Pkg.Path() + "." + c.Name(), Root: w.sortOf(c.Type().(*types.Pointer).Elem()), Sort: w.sortOf(c.Type().(*types.Pointer).Elem())}}
		}
		s := w.sortOf(c.Type().(*types.Pointer).Elem())
		h := w.globalHeap(c.Pkg.Pkg, c.Name(), s)
		return &Val{L: &Loc{Kind: LGlobal, Heap: h, Root: s, Sort: s}}
	case *ssa.Function:
		name := "fn_" + c.String()
		t := w.declConst(name, &Sort{Name: "Int", Kind: KFunc, Go: c.Type()})
		return &Val{T: t, Fn: c}
	case *ssa.Builtin:
		return &Val{Bad: "builtin value"}
	}
	panic(unsupportedErr(fmt.Sprintf("value %s (%T) used before definition", v.Name(), v)))
}

func (ft *funcTrans) termOf(v ssa.Value) Term {
	x := ft.valOf(v)
	if x.Bad != "" {
		panic(unsupportedErr("use of unsupported value " + v.Name() + ": " + x.Bad))
	}
	if x.L != nil && !x.Opaque {
		panic(unsupportedErr("interior pointer " + v.Name() + " used as a value"))
	}
	if x.Tup != nil {
		panic(unsupportedErr("tuple used as a value"))
	}
	return x.T
}

func (ft *funcTrans) define(v ssa.Value, t Term) {
	w := ft.w
	s := w.sortOf(v.Type())
	c := w.declConst("v_"+v.Name(), s)
	if t.Sort.Kind == KUntypedInt || t.Sort.Kind == KUntypedNil {
		t = ft.coerceTo(t, s)
	}
	w.addFact(fmt.Sprintf("(= %s %s)", c.S, t.S))
	ft.vals[v] = &Val{T: c}
}

func (ft *funcTrans) havocValue(v ssa.Value, why string) {
	w := ft.w
	if tup, ok := v.Type().(*types.Tuple); ok {
		var vs []*Val
		for i := 0; i < tup.Len(); i++ {
			s := w.sortOf(tup.At(i).Type())
			c := w.declConst(fmt.Sprintf("v_%s.%d", v.Name(), i), s)
			ft.assumeWellTyped(c, ft.curSt, ft.reach[ft.cur])
			vs = append(vs, &Val{T: c})
		}
		ft.vals[v] = &Val{Tup: vs}
		return
	}
	s := w.sortOf(v.Type())
	if s.Kind == KRef {
		if pt, ok := v.Type().Underlying().(*types.Pointer); ok {
			_ = pt
		}
	}
	c := w.declConst("v_"+v.Name(), s)
	ft.assumeWellTyped(c, ft.curSt, ft.reach[ft.cur])
	ft.vals[v] = &Val{T: c}
	if why != "" {
		w.unsupported = append(w.unsupported, fmt.Sprintf("%s: %s havocked (%s)", ft.fn.String(), v.Name(), why))
	}
}

// ---- locations

func (ft *funcTrans) locOfPointer(v ssa.Value) *Loc {
	_ = ft.w
	x := ft.valOf(v)
	if x.Bad != "" {
		panic(unsupportedErr("pointer " + v.Name() + ": " + x.Bad))
	}
	if x.L != nil {
		return x.L
	}
	pt, ok := v.Type().Underlying().(*types.Pointer)
	if !ok {
		panic(unsupportedErr("not a pointer: " + v.Name()))
	}
	return ft.locOfRef(x.T.S, pt.Elem())
}

func (ft *funcTrans) locOfRef(ref string, elem types.Type) *Loc {
	w := ft.w
	s := w.sortOf(elem)
	switch s.Kind {
	case KStruct:
		return &Loc{Kind: LObj, Base: ref, Root: s, Sort: s}
	case KArray:
		return &Loc{Kind: LArr, Base: ref, Heap: w.elemHeap(s.Elem), Root: s, Sort: s}
	default:
		return &Loc{Kind: LCell, Base: ref, Heap: w.cellHeap(s), Root: s, Sort: s}
	}
}

func (ft *funcTrans) readRoot(st *State, l *Loc) string {
	w := ft.w
	switch l.Kind {
	case LField, LCell:
		return fmt.Sprintf("(select %s %s)", w.heapSym(st, l.Heap), l.Base)
	case LElem:
		return fmt.Sprintf("(select (select %s %s) %s)", w.heapSym(st, l.Heap), l.Base, l.Idx)
	case LArr:
		return fmt.Sprintf("(select %s %s)", w.heapSym(st, l.Heap), l.Base)
	case LGlobal:
		return w.heapSym(st, l.Heap)
	case LSentinel:
		i := strings.LastIndex(l.Heap, ".")
		return w.sentinelTerm(l.Heap[:i], l.Heap[i+1:]).S
	case LLocal:
		sym, ok := st.locals[l.LocalKey]
		if !ok {
			panic(unsupportedErr("local " + l.LocalKey + " read before allocation on this path"))
		}
		return sym
	case LObj:
		var parts []string
		for _, fi := range w.fieldsOf(l.Root) {
			parts = append(parts, fmt.Sprintf("(select %s %s)", w.heapSym(st, w.fieldHeap(l.Root, fi)), l.Base))
		}
		if len(parts) == 0 {
			return q("mk_" + l.Root.Name)
		}
		return "(" + q("mk_"+l.Root.Name) + " " + strings.Join(parts, " ") + ")"
	}
	panic("bad loc kind")
}

func (ft *funcTrans) readLoc(st *State, l *Loc) Term {
	w := ft.w
	// fast path: LObj + first step field -> direct field heap
	if l.Kind == LObj && len(l.Path) > 0 && !l.Path[0].IsIdx {
		fi := w.fieldsOf(l.Root)[l.Path[0].Field]
		nl := &Loc{Kind: LField, Base: l.Base, Heap: w.fieldHeap(l.Root, fi), Root: fi.Sort, Sort: l.Sort, Path: l.Path[1:]}
		return ft.readLoc(st, nl)
	}
	cur := ft.readRoot(st, l)
	for _, ps := range l.Path {
		if ps.IsIdx {
			cur = fmt.Sprintf("(select %s %s)", cur, ps.Idx)
		} else {
			// data-structure invariants of dependencies (spec "; invariant S_x ...") hold for the struct read through
			for _, inv := range w.P.Spec.StructInv[ps.In.Name] {
				f := strings.ReplaceAll(inv, "$v", cur)
				if g, ok := ft.reach[ft.cur]; ok && g != "true" && g != "" {
					f = fmt.Sprintf("(=> %s %s)", g, f)
				}
				w.addFact(f)
			}
			cur = fmt.Sprintf("(%s %s)", q(w.fieldsOf(ps.In)[ps.Field].Acc), cur)
		}
	}
	return Term{cur, l.Sort}
}

func (ft *funcTrans) updPath(root string, path []pathStep, nv string) string {
	w := ft.w
	if len(path) == 0 {
		return nv
	}
	ps := path[0]
	if ps.IsIdx {
		inner := ft.updPath(fmt.Sprintf("(select %s %s)", root, ps.Idx), path[1:], nv)
		return fmt.Sprintf("(store %s %s %s)", root, ps.Idx, inner)
	}
	fis := w.fieldsOf(ps.In)
	var parts []string
	for i, fi := range fis {
		acc := fmt.Sprintf("(%s %s)", q(fi.Acc), root)
		if i == ps.Field {
			parts = append(parts, ft.updPath(acc, path[1:], nv))
		} else {
			parts = append(parts, acc)
		}
	}
	return "(" + q("mk_"+ps.In.Name) + " " + strings.Join(parts, " ") + ")"
}

func (ft *funcTrans) writeLoc(st *State, l *Loc, v Term) {
	w := ft.w
	if v.Sort.Kind == KUntypedInt || v.Sort.Kind == KUntypedNil {
		v = ft.coerceTo(v, l.Sort)
	}
	if l.Kind == LObj {
		if len(l.Path) > 0 && !l.Path[0].IsIdx {
			fi := w.fieldsOf(l.Root)[l.Path[0].Field]
			nl := &Loc{Kind: LField, Base: l.Base, Heap: w.fieldHeap(l.Root, fi), Root: fi.Sort, Sort: l.Sort, Path: l.Path[1:]}
			ft.writeLoc(st, nl, v)
			return
		}
		// whole struct store: field-wise
		for _, fi := range w.fieldsOf(l.Root) {
			h := w.fieldHeap(l.Root, fi)
			old := w.heapSym(st, h)
			nw := ft.newHeapVersion(st, h)
			w.addFact(fmt.Sprintf("(= %s (store %s %s (%s %s)))", nw, old, l.Base, q(fi.Acc), v.S))
		}
		return
	}
	root := ft.readRoot(st, l)
	nv := ft.updPath(root, l.Path, v.S)
	switch l.Kind {
	case LField, LCell, LArr:
		old := w.heapSym(st, l.Heap)
		nw := ft.newHeapVersion(st, l.Heap)
		w.addFact(fmt.Sprintf("(= %s (store %s %s %s))", nw, old, l.Base, nv))
	case LElem:
		old := w.heapSym(st, l.Heap)
		nw := ft.newHeapVersion(st, l.Heap)
		w.addFact(fmt.Sprintf("(= %s (store %s %s (store (select %s %s) %s %s)))", nw, old, l.Base, old, l.Base, l.Idx, nv))
	case LGlobal:
		nw := ft.newHeapVersion(st, l.Heap)
		w.addFact(fmt.Sprintf("(= %s %s)", nw, nv))
	case LLocal:
		sym := w.declConstRaw(w.fresh("L_"+l.LocalKey), l.Root.Name)
		w.addFact(fmt.Sprintf("(= %s %s)", sym, nv))
		st.locals[l.LocalKey] = sym
	}
}

// panicCheck: condition `ok` must hold or the program panics here.
func (ft *funcTrans) panicCheck(kind, ok string, pos token.Pos) {
	if ft.c != nil && ft.c.NoPanic {
		ft.nAsserts++
		o := ft.obligation("nopanic", fmt.Sprintf("nopanic%d.%s", ft.nAsserts, kind), kind+" cannot fail", ok)
		o.Where = posStr(ft.p.SSA.Fset, pos)
		return
	}
	ft.assume(ok)
}

// ---- instructions

func (ft *funcTrans) instr(in ssa.Instruction) {
	w := ft.w
	st := ft.curSt
	switch x := in.(type) {
	case *ssa.DebugRef:
		return
	case *ssa.Alloc:
		elem := x.Type().(*types.Pointer).Elem()
		s := w.sortOf(elem)
		if !x.Heap {
			key := x.Name()
			if ft.localSorts == nil {
				ft.localSorts = map[string]*Sort{}
			}
			ft.localSorts[key] = s
			sym := w.declConstRaw(w.fresh("L_"+key), s.Name)
			w.addFact(fmt.Sprintf("(= %s %s)", sym, w.zero(s).S))
			st.locals[key] = sym
			ft.vals[x] = &Val{L: &Loc{Kind: LLocal, LocalKey: key, Root: s, Sort: s}}
			return
		}
		r := ft.freshRef(st)
		l := ft.locOfRef(r, elem)
		switch l.Kind {
		case LObj:
			for _, fi := range w.fieldsOf(s) {
				h := w.fieldHeap(s, fi)
				old := w.heapSym(st, h)
				nw := ft.newHeapVersion(st, h)
				w.addFact(fmt.Sprintf("(= %s (store %s %s %s))", nw, old, r, w.zero(fi.Sort).S))
			}
		default:
			old := w.heapSym(st, l.Heap)
			if at, ok := elem.Underlying().(*types.Array); ok && at.Len() == 1 {
				// the one-element array of a varargs call such as append(s, x): remember the element
				// heap as it was before the temporary array existed (see appendOp)
				if ft.varargBefore == nil {
					ft.varargBefore = map[ssa.Value]string{}
				}
				ft.varargBefore[x] = old
			}
			nw := ft.newHeapVersion(st, l.Heap)
			w.addFact(fmt.Sprintf("(= %s (store %s %s %s))", nw, old, r, w.zero(s).S))
		}
		c := w.declConst("v_"+x.Name(), w.sortOf(x.Type()))
		w.addFact(fmt.Sprintf("(= %s %s)", c.S, r))
		ft.vals[x] = &Val{T: c}
	case *ssa.FieldAddr:
		base := ft.valOf(x.X)
		if base.Bad != "" {
			ft.vals[x] = &Val{Bad: base.Bad}
			return
		}
		stT := x.X.Type().Underlying().(*types.Pointer).Elem()
		ss := w.sortOf(stT)
		if ss.Kind != KStruct {
			ft.vals[x] = &Val{Bad: "field of opaque struct " + stT.String()}
			return
		}
		fi := w.fieldsOf(ss)[x.Field]
		if base.L != nil {
			ft.vals[x] = &Val{L: base.L.extend(pathStep{Field: x.Field, In: ss, Out: fi.Sort})}
			return
		}
		ft.panicCheck("nilderef", fmt.Sprintf("(not (= %s 0))", base.T.S), x.Pos())
		v := &Val{L: &Loc{Kind: LField, Base: base.T.S, Heap: w.fieldHeap(ss, fi), Root: fi.Sort, Sort: fi.Sort}}
		if nt, ok := fi.Go.(*types.Named); ok && nt.Obj().Pkg() != nil && !strings.HasPrefix(nt.Obj().Pkg().Path(), modPath) {
			// address of a field holding an opaque struct of another package (e.g. sync.WaitGroup):
			// usable as an argument of calls; never dereferenced by the verified code
			w.declFaddr()
			v.T = Term{fmt.Sprintf("(faddr %s %d)", base.T.S, x.Field), w.sortOf(x.Type())}
			v.Opaque = true
		}
		ft.vals[x] = v
	case *ssa.IndexAddr:
		idx := w.toIdx(ft.termOf(x.Index))
		switch xt := x.X.Type().Underlying().(type) {
		case *types.Slice:
			s := ft.termOf(x.X)
			es := w.sortOf(xt.Elem())
			ft.panicCheck("index", fmt.Sprintf("(and %s %s)", w.ile(w.ilit(0), idx), w.ilt(idx, "(s-len "+s.S+")")), x.Pos())
			ft.vals[x] = &Val{L: &Loc{Kind: LElem, Base: "(s-arr " + s.S + ")", Idx: w.sidx("(s-off "+s.S+")", idx), Heap: w.elemHeap(es), Root: es, Sort: es}}
		case *types.Pointer:
			at := xt.Elem().Underlying().(*types.Array)
			es := w.sortOf(at.Elem())
			ft.panicCheck("index", fmt.Sprintf("(and %s %s)", w.ile(w.ilit(0), idx), w.ilt(idx, w.ilit(at.Len()))), x.Pos())
			base := ft.valOf(x.X)
			if base.Bad != "" {
				ft.vals[x] = &Val{Bad: base.Bad}
				return
			}
			if base.L != nil {
				as := w.sortOf(xt.Elem())
				ft.vals[x] = &Val{L: base.L.extend(pathStep{IsIdx: true, Idx: idx, In: as, Out: es})}
				return
			}
			ft.panicCheck("nilderef", fmt.Sprintf("(not (= %s 0))", base.T.S), x.Pos())
			ft.vals[x] = &Val{L: &Loc{Kind: LElem, Base: base.T.S, Idx: idx, Heap: w.elemHeap(es), Root: es, Sort: es}}
		default:
			panic(unsupportedErr("IndexAddr on " + x.X.Type().String()))
		}
	case *ssa.Field:
		base := ft.termOf(x.X)
		if base.Sort.Kind != KStruct {
			ft.havocValue(x, "field of opaque struct")
			return
		}
		fi := w.fieldsOf(base.Sort)[x.Field]
		ft.define(x, Term{fmt.Sprintf("(%s %s)", q(fi.Acc), base.S), fi.Sort})
	case *ssa.Index:
		base := ft.termOf(x.X)
		idx := w.toIdx(ft.termOf(x.Index))
		if base.Sort.Kind == KString {
			ft.havocValue(x, "")
			w.declFun("str_byte", []string{"String", w.idxSortName()}, w.sortOf(x.Type()).Name)
			ft.assume(fmt.Sprintf("(= %s (str_byte %s %s))", ft.vals[x].T.S, base.S, idx))
			return
		}
		ft.define(x, Term{fmt.Sprintf("(select %s %s)", base.S, idx), base.Sort.Elem})
	case *ssa.UnOp:
		ft.unop(x)
	case *ssa.BinOp:
		ft.binop(x)
	case *ssa.Store:
		l := ft.locOfPointer(x.Addr)
		if l.Kind != LLocal && l.Kind != LGlobal && (l.Kind == LObj || l.Kind == LCell || l.Kind == LArr) {
			// store through a plain pointer value: nil check
			ft.panicCheck("nilderef", fmt.Sprintf("(not (= %s 0))", l.Base), x.Pos())
		}
		ft.writeLoc(st, l, ft.termOf(x.Val))
	case *ssa.ChangeType:
		t := ft.termOf(x.X)
		ft.define(x, Term{t.S, w.sortOf(x.Type())})
	case *ssa.Convert:
		t := ft.termOf(x.X)
		to := w.sortOf(x.Type())
		if t.Sort.Kind == KUntypedInt {
			ft.define(x, ft.coerceTo(t, to))
			return
		}
		// []byte("constant"): a fresh array holding the bytes of the constant (allocated first, then the
		// value is defined over it: a value declared before the allocation would carry "allocated
		// earlier" as a type fact and contradict its own freshness)
		if c, ok := x.X.(*ssa.Const); ok && c.Value != nil && c.Value.Kind() == constant.String && to.Kind == KSlice && !w.BV {
			bs := []byte(constant.StringVal(c.Value))
			r := ft.freshRef(st)
			capc := w.declConstRaw(w.fresh("cap"), "Int")
			w.addFact(fmt.Sprintf("(>= %s %d)", capc, len(bs)))
			ft.define(x, Term{fmt.Sprintf("(mk-slice %s 0 %d %s)", r, len(bs), capc), to})
			if len(bs) <= 16 {
				es := w.sortOf(types.Typ[types.Byte])
				h := w.elemHeap(es)
				old := w.heapSym(st, h)
				arr := fmt.Sprintf("(select %s %s)", old, r)
				for i, b := range bs {
					arr = fmt.Sprintf("(store %s %d %d)", arr, i, b)
				}
				nw := ft.newHeapVersion(st, h)
				w.addFact(fmt.Sprintf("(= %s (store %s %s %s))", nw, old, r, arr))
			}
			return
		}
		func() {
			defer func() {
				if r := recover(); r != nil {
					if _, ok := r.(unsupportedErr); ok {
						ft.havocValue(x, fmt.Sprint(r))
						return
					}
					panic(r)
				}
			}()
			ft.define(x, w.convert(t, to))
		}()
	case *ssa.ChangeInterface:
		t := ft.termOf(x.X)
		ft.define(x, Term{t.S, w.sortOf(x.Type())})
	case *ssa.MakeInterface:
		if g, ok := x.X.(*ssa.Global); ok {
			// &global boxed into an interface (json.Unmarshal(data, &table)): an opaque address; what the
			// callee may do through it is said by naming the global in its assigns clause
			a := w.declConst("gaddr_"+g.Pkg.Pkg.Name()+"."+g.Name(), &Sort{Name: "Int", Kind: KRef, Go: g.Type()})
			w.addFact(fmt.Sprintf("(< %s 0)", a.S)) // not an allocated object
			ft.define(x, Term{fmt.Sprintf("(mk-iface %d %s)", w.typeID(g.Type()), a.S), &Sort{Name: "Iface", Kind: KIface}})
			return
		}
		t := ft.termOf(x.X)
		ft.define(x, ft.makeIface(t, x.X.Type()))
	case *ssa.TypeAssert:
		ft.typeAssert(x)
	case *ssa.Extract:
		tv := ft.valOf(x.Tuple)
		if tv.Tup == nil {
			panic(unsupportedErr("extract from non-tuple"))
		}
		ft.vals[x] = tv.Tup[x.Index]
	case *ssa.Call:
		ft.call(x, x)
	case *ssa.Go:
		ft.notes = append(ft.notes, "go statement at "+posStr(ft.p.SSA.Fset, x.Pos())+": spawned goroutine is not modelled (sequential reasoning only)")
		ft.goRequires(x)
	case *ssa.Defer:
		ft.defers = append(ft.defers, x)
	case *ssa.RunDefers:
		for i := len(ft.defers) - 1; i >= 0; i-- {
			ft.call(ft.defers[i], nil)
		}
	case *ssa.MakeSlice:
		ft.makeSlice(x)
	case *ssa.Slice:
		ft.sliceOp(x)
	case *ssa.MakeMap:
		mt := x.Type().Underlying().(*types.Map)
		ks, vs := w.sortOf(mt.Key()), w.sortOf(mt.Elem())
		hd, hv := w.mapHeaps(ks, vs)
		r := ft.freshRef(st)
		od := w.heapSym(st, hd)
		nd := ft.newHeapVersion(st, hd)
		w.addFact(fmt.Sprintf("(= %s (store %s %s ((as const (Array %s Bool)) false)))", nd, od, r, ks.Name))
		ov := w.heapSym(st, hv)
		nv := ft.newHeapVersion(st, hv)
		w.addFact(fmt.Sprintf("(= %s (store %s %s ((as const (Array %s %s)) %s)))", nv, ov, r, ks.Name, vs.Name, w.zero(vs).S))
		ft.define(x, Term{r, w.sortOf(x.Type())})
	case *ssa.MapUpdate:
		m := ft.termOf(x.Map)
		mt := x.Map.Type().Underlying().(*types.Map)
		ks, vs := w.sortOf(mt.Key()), w.sortOf(mt.Elem())
		hd, hv := w.mapHeaps(ks, vs)
		k := ft.coerceTo(ft.termOf(x.Key), ks)
		v := ft.coerceTo(ft.termOf(x.Value), vs)
		ft.panicCheck("nilmap", fmt.Sprintf("(not (= %s 0))", m.S), x.Pos())
		od := w.heapSym(st, hd)
		nd := ft.newHeapVersion(st, hd)
		w.addFact(fmt.Sprintf("(= %s (store %s %s (store (select %s %s) %s true)))", nd, od, m.S, od, m.S, k.S))
		ov := w.heapSym(st, hv)
		nv := ft.newHeapVersion(st, hv)
		w.addFact(fmt.Sprintf("(= %s (store %s %s (store (select %s %s) %s %s)))", nv, ov, m.S, ov, m.S, k.S, v.S))
	case *ssa.Lookup:
		ft.lookup(x)
	case *ssa.Range:
		// the iterator itself is opaque: Next reads the ranged-over value directly
		ft.vals[x] = &Val{T: Term{w.declConstRaw(w.fresh("iter"), "Int"), &Sort{Name: "Int", Kind: KOther}}}
	case *ssa.Next:
		ft.next(x)
	case *ssa.MakeClosure:
		c := w.declConst("v_"+x.Name(), w.sortOf(x.Type()))
		ft.vals[x] = &Val{T: c, Fn: x.Fn.(*ssa.Function)}
	case *ssa.MakeChan:
		r := ft.freshRef(st)
		ft.define(x, Term{r, w.sortOf(x.Type())})
	case *ssa.Send:
		if ft.c != nil && ft.c.CancellableSends {
			// a plain send blocks until someone receives: nothing can release it once the receiver is gone
			ft.nAsserts++
			o := ft.obligation("cancellable", fmt.Sprintf("send%d.cancellable", ft.sendSiteOrdinal(x.Pos())), "every send can be abandoned when the context is cancelled (select with a <-ctx.Done() case)", "false")
			o.Where = posStr(ft.p.SSA.Fset, x.Pos())
			w.popFact()
		}
		ft.sendReqs(ft.termOf(x.X), ft.termOf(x.Chan), x.Pos())
		ft.asyncPoint()
		ft.recordSent(ft.termOf(x.X), "true")
		ft.countSendAttempt()
	case *ssa.Select:
		if ft.c != nil && ft.c.CancellableSends {
			hasSend, hasDone := false, false
			var sendPos token.Pos
			for _, stt := range x.States {
				if stt.Dir == types.SendOnly {
					hasSend, sendPos = true, stt.Pos
				}
				if stt.Dir == types.RecvOnly {
					if call, ok := stt.Chan.(*ssa.Call); ok && call.Common().IsInvoke() && call.Common().Method.Name() == "Done" && types.TypeString(call.Common().Value.Type(), nil) == "context.Context" {
						hasDone = true
					}
				}
			}
			if hasSend {
				goal := "true"
				if !hasDone || !x.Blocking && false {
					goal = "false"
				}
				ft.nAsserts++
				o := ft.obligation("cancellable", fmt.Sprintf("send%d.cancellable", ft.sendSiteOrdinal(sendPos)), "every send can be abandoned when the context is cancelled (select with a <-ctx.Done() case)", goal)
				o.Where = posStr(ft.p.SSA.Fset, sendPos)
				w.popFact()
			}
		}
		for _, stt := range x.States {
			if stt.Dir == types.SendOnly && stt.Send != nil {
				ft.sendReqs(ft.termOf(stt.Send), ft.termOf(stt.Chan), stt.Pos)
			}
		}
		ft.asyncPoint()
		ft.havocValue(x, "")
		tup := ft.vals[x].Tup
		n := len(x.States)
		lo := -1
		if !x.Blocking {
			lo = -1
		} else {
			lo = 0
		}
		ft.assume(fmt.Sprintf("(and %s %s)", w.ile(w.ilit(int64(lo)), tup[0].T.S), w.ilt(tup[0].T.S, w.ilit(int64(n)))))
		for _, stt := range x.States {
			if stt.Dir == types.SendOnly {
				ft.countSendAttempt() // a select with a send case is one attempt to send, whichever case is taken
				break
			}
		}
		for k, stt := range x.States {
			chosen := fmt.Sprintf("(= %s %s)", tup[0].T.S, w.ilit(int64(k)))
			if stt.Dir == types.SendOnly && stt.Send != nil {
				ft.recordSent(ft.termOf(stt.Send), chosen)
			}
			if stt.Dir == types.RecvOnly {
				// case <-ctx.Done(): taken only when ctx has been cancelled
				if call, ok := stt.Chan.(*ssa.Call); ok && call.Common().IsInvoke() && call.Common().Method.Name() == "Done" && types.TypeString(call.Common().Value.Type(), nil) == "context.Context" {
					if srt, ok := w.P.Spec.Ghosts["cancelled"]; ok {
						h := "G_ghost.cancelled"
						w.heapSorts[h] = srt
						ft.assume(fmt.Sprintf("(=> %s (select %s %s))", chosen, w.heapSym(ft.curSt, h), ft.termOf(call.Common().Value).S))
					}
				}
			}
		}
	case *ssa.If:
		c := ft.termOf(x.Cond)
		ft.setEdges(ft.cur, []string{c.S, "(not " + c.S + ")"})
	case *ssa.Jump:
		ft.setEdges(ft.cur, []string{"true"})
	case *ssa.Return:
		ft.ret(x)
	case *ssa.Panic:
		if ft.c != nil && ft.c.NoPanic {
			ft.nAsserts++
			o := ft.obligation("nopanic", fmt.Sprintf("nopanic%d.panic", ft.nAsserts), "explicit panic unreachable", "false")
			o.Where = posStr(ft.p.SSA.Fset, x.Pos())
		}
	default:
		panic(unsupportedErr(fmt.Sprintf("instruction %T (%s)", in, in.String())))
	}
}

func (ft *funcTrans) makeIface(t Term, gt types.Type) Term {
	w := ft.w
	is := &Sort{Name: "Iface", Kind: KIface}
	if t.Sort.Kind == KIface {
		return t
	}
	id := w.typeID(gt)
	switch t.Sort.Kind {
	case KRef, KMap, KChan, KFunc:
		return Term{fmt.Sprintf("(mk-iface %d %s)", id, t.S), is}
	}
	box := "box_" + sanitize(t.Sort.Name)
	unbox := "unbox_" + sanitize(t.Sort.Name)
	w.declFun(box, []string{t.Sort.Name}, "Int")
	w.declFun(unbox, []string{"Int"}, t.Sort.Name)
	// ground instance of injectivity (no quantified axiom: keeps sat answers and models available)
	w.addFact(fmt.Sprintf("(= (%s (%s %s)) %s)", q(unbox), q(box), t.S, t.S))
	return Term{fmt.Sprintf("(mk-iface %d (%s %s))", id, q(box), t.S), is}
}

func (ft *funcTrans) typeAssert(x *ssa.TypeAssert) {
	w := ft.w
	t := ft.termOf(x.X)
	if _, isIface := x.AssertedType.Underlying().(*types.Interface); isIface {
		// assertion to interface type: succeeds iff the dynamic type implements it -- unknown
		if x.CommaOk {
			ft.havocValue(x, "")
			tup := ft.vals[x].Tup
			ft.assume(fmt.Sprintf("(=> %s (= %s %s))", tup[1].T.S, tup[0].T.S, t.S))
			ft.assume(fmt.Sprintf("(=> (not %s) (= %s (mk-iface 0 0)))", tup[1].T.S, tup[0].T.S))
			ft.assume(fmt.Sprintf("(=> (= (i-dyn %s) 0) (not %s))", t.S, tup[1].T.S))
			return
		}
		ft.panicCheck("typeassert", fmt.Sprintf("(not (= (i-dyn %s) 0))", t.S), x.Pos())
		ft.define(x, Term{t.S, w.sortOf(x.Type())})
		return
	}
	s := w.sortOf(x.AssertedType)
	id := w.typeID(x.AssertedType)
	ok := fmt.Sprintf("(= (i-dyn %s) %d)", t.S, id)
	var val string
	switch s.Kind {
	case KRef, KMap, KChan, KFunc:
		val = fmt.Sprintf("(i-val %s)", t.S)
	default:
		unbox := "unbox_" + sanitize(s.Name)
		ft.makeIface(w.zero(s), x.AssertedType) // ensure box functions declared
		val = fmt.Sprintf("(%s (i-val %s))", q(unbox), t.S)
	}
	if x.CommaOk {
		c0 := w.declConst(fmt.Sprintf("v_%s.0", x.Name()), s)
		c1 := w.declConst(fmt.Sprintf("v_%s.1", x.Name()), sortBool)
		w.addFact(fmt.Sprintf("(= %s %s)", c1.S, ok))
		w.addFact(fmt.Sprintf("(= %s (ite %s %s %s))", c0.S, ok, val, w.zero(s).S))
		ft.vals[x] = &Val{Tup: []*Val{{T: c0}, {T: c1}}}
		return
	}
	ft.panicCheck("typeassert", ok, x.Pos())
	ft.define(x, Term{val, s})
}

func (ft *funcTrans) unop(x *ssa.UnOp) {
	w := ft.w
	switch x.Op {
	case token.MUL:
		if al, ok := x.X.(*ssa.Alloc); ok {
			if v, isConst := constCellValue(al); isConst {
				// a variable that is written once (its initial value) and then only read,
				// by this function and by the closures that capture it
				ft.define(x, ft.termOf(v))
				return
			}
		}
		l := ft.locOfPointer(x.X)
		if l.Kind == LObj || l.Kind == LCell || l.Kind == LArr {
			ft.panicCheck("nilderef", fmt.Sprintf("(not (= %s 0))", l.Base), x.Pos())
		}
		t := ft.readLoc(ft.curSt, l)
		t.Sort = w.sortOf(x.Type())
		ft.define(x, t)
		ft.assumeWellTyped(ft.vals[x].T, ft.curSt, ft.reach[ft.cur])
	case token.NOT:
		t := ft.termOf(x.X)
		ft.define(x, Term{"(not " + t.S + ")", sortBool})
	case token.SUB:
		t := ft.termOf(x.X)
		if w.BV && t.Sort.Kind == KInt {
			ft.define(x, Term{"(bvneg " + t.S + ")", t.Sort})
		} else {
			ft.define(x, Term{"(- " + t.S + ")", t.Sort})
		}
	case token.XOR:
		t := ft.termOf(x.X)
		if w.BV {
			ft.define(x, Term{"(bvnot " + t.S + ")", t.Sort})
		} else {
			ft.define(x, Term{"(- (- " + t.S + ") 1)", t.Sort})
		}
	case token.ARROW:
		ft.asyncPoint()
		ft.havocValue(x, "")
		if ft.c != nil && len(ft.c.RecvAssumes) > 0 {
			v := ft.vals[x]
			var rt Term
			if v.Tup != nil {
				rt = v.Tup[0].T
			} else {
				rt = v.T
			}
			ec := ft.localCtx(ft.curSt)
			ec.env["recv"] = rt
			ec.env["recvFrom"] = ft.termOf(x.X)
			for _, ra := range ft.c.RecvAssumes {
				t := ec.evalBool(ra.E)
				if v.Tup != nil && len(v.Tup) > 1 {
					// a closed channel yields the zero value: the assumption is about delivered values
					ft.assume(fmt.Sprintf("(=> %s %s)", v.Tup[1].T.S, t.S))
				} else {
					ft.assume(t.S)
				}
			}
			w.assumptions["received values assumed to satisfy the recvassume clauses of "+ft.fn.String()+" (justified by the sender's sendreq)"] = true
		}
	default:
		panic(unsupportedErr("unary op " + x.Op.String()))
	}
}

func (ft *funcTrans) binop(x *ssa.BinOp) {
	w := ft.w
	a, b := ft.termOf(x.X), ft.termOf(x.Y)
	c := ft.ctx(ft.curSt, nil)
	switch x.Op {
	case token.SHL, token.SHR:
		op := "<<"
		if x.Op == token.SHR {
			op = ">>"
		}
		a = ft.coerceTo(a, w.sortOf(x.Type()))
		ft.define(x, w.shift(op, a, b))
		return
	}
	a, b = c.unify(a, b)
	if a.Sort.Kind == KUntypedInt {
		a = ft.coerceTo(a, w.sortOf(x.X.Type()))
		b = ft.coerceTo(b, w.sortOf(x.Y.Type()))
	}
	if (x.Op == token.EQL || x.Op == token.NEQ) && isNamed(x.X.Type(), "time", "Time") && x.X != x.Y {
		// == on time.Time compares the representation (wall clock, monotonic reading, *Location),
		// not the instant: equal structs denote the same instant, but not conversely.
		eq := w.declConstRaw(w.fresh("timeStructEq"), "Bool")
		w.addFact(fmt.Sprintf("(=> %s (= %s %s))", eq, a.S, b.S))
		if x.Op == token.EQL {
			ft.define(x, Term{eq, sortBool})
		} else {
			ft.define(x, Term{"(not " + eq + ")", sortBool})
		}
		return
	}
	if (x.Op == token.EQL || x.Op == token.NEQ) && a.Sort.Kind == KSlice {
		// a slice can only be compared with nil: nil-ness is the absence of a backing array
		other := a
		if c, ok := x.X.(*ssa.Const); ok && c.Value == nil {
			other = b
		}
		eq := fmt.Sprintf("(= (s-arr %s) 0)", other.S)
		if x.Op == token.NEQ {
			eq = "(not " + eq + ")"
		}
		ft.define(x, Term{eq, sortBool})
		return
	}
	switch x.Op {
	case token.EQL:
		ft.define(x, Term{fmt.Sprintf("(= %s %s)", a.S, b.S), sortBool})
	case token.NEQ:
		ft.define(x, Term{fmt.Sprintf("(not (= %s %s))", a.S, b.S), sortBool})
	case token.QUO, token.REM:
		if a.Sort.Kind == KInt {
			ft.panicCheck("divzero", fmt.Sprintf("(not (= %s %s))", b.S, w.zero(b.Sort).S), x.Pos())
		}
		ft.define(x, w.arith(x.Op.String(), a, b))
		if x.Op == token.REM && !w.BV && a.Sort.Kind == KInt {
			// ground facts about % on a non-negative dividend and positive divisor (valid lemmas;
			// they keep proofs about wrap-around counters in linear arithmetic)
			v := ft.vals[x].T.S
			w.addFact(fmt.Sprintf("(=> (and (>= %s 0) (> %s 0)) (and (>= %s 0) (< %s %s)))", a.S, b.S, v, v, b.S))
			w.addFact(fmt.Sprintf("(=> (and (>= %s 0) (< %s %s)) (= %s %s))", a.S, a.S, b.S, v, a.S))
			w.addFact(fmt.Sprintf("(=> (and (> %s 0) (<= %s %s) (< %s (* 2 %s))) (= %s (- %s %s)))", b.S, b.S, a.S, a.S, b.S, v, a.S, b.S))
		}
	default:
		r := w.arith(x.Op.String(), a, b)
		if r.Sort.Kind != KBool {
			r.Sort = w.sortOf(x.Type())
		}
		ft.define(x, r)
	}
}

func (ft *funcTrans) makeSlice(x *ssa.MakeSlice) {
	w := ft.w
	st := ft.curSt
	es := w.sortOf(x.Type().Underlying().(*types.Slice).Elem())
	ln := w.toIdx(ft.termOf(x.Len))
	cp := w.toIdx(ft.termOf(x.Cap))
	ft.panicCheck("makeslice", fmt.Sprintf("(and %s %s)", w.ile(w.ilit(0), ln), w.ile(ln, cp)), x.Pos())
	r := ft.freshRef(st)
	h := w.elemHeap(es)
	old := w.heapSym(st, h)
	nw := ft.newHeapVersion(st, h)
	w.addFact(fmt.Sprintf("(= %s (store %s %s ((as const (Array %s %s)) %s)))", nw, old, r, w.idxSortName(), es.Name, w.zero(es).S))
	ft.define(x, Term{fmt.Sprintf("(mk-slice %s %s %s %s)", r, w.ilit(0), ln, cp), w.sortOf(x.Type())})
}

func (ft *funcTrans) sliceOp(x *ssa.Slice) {
	w := ft.w
	var lo, hi string
	if x.Low != nil {
		lo = w.toIdx(ft.termOf(x.Low))
	} else {
		lo = w.ilit(0)
	}
	switch xt := x.X.Type().Underlying().(type) {
	case *types.Slice:
		s := ft.termOf(x.X)
		if x.High != nil {
			hi = w.toIdx(ft.termOf(x.High))
		} else {
			hi = "(s-len " + s.S + ")"
		}
		mx := "(s-cap " + s.S + ")"
		if x.Max != nil {
			mx = w.toIdx(ft.termOf(x.Max))
		}
		ft.panicCheck("slice", fmt.Sprintf("(and %s %s %s %s)", w.ile(w.ilit(0), lo), w.ile(lo, hi), w.ile(hi, mx), w.ile(mx, "(s-cap "+s.S+")")), x.Pos())
		ft.define(x, Term{fmt.Sprintf("(mk-slice (s-arr %s) %s %s %s)", s.S, w.iadd("(s-off "+s.S+")", lo), w.isub(hi, lo), w.isub(mx, lo)), w.sortOf(x.Type())})
	case *types.Pointer:
		at := xt.Elem().Underlying().(*types.Array)
		base := ft.valOf(x.X)
		if base.L != nil || base.Bad != "" {
			panic(unsupportedErr("slice of local array"))
		}
		n := w.ilit(at.Len())
		if x.High != nil {
			hi = w.toIdx(ft.termOf(x.High))
		} else {
			hi = n
		}
		ft.panicCheck("slice", fmt.Sprintf("(and %s %s %s)", w.ile(w.ilit(0), lo), w.ile(lo, hi), w.ile(hi, n)), x.Pos())
		ft.define(x, Term{fmt.Sprintf("(mk-slice %s %s %s %s)", base.T.S, lo, w.isub(hi, lo), w.isub(n, lo)), w.sortOf(x.Type())})
	case *types.Basic:
		s := ft.termOf(x.X)
		if w.BV {
			panic(unsupportedErr("string slicing in bv mode"))
		}
		if x.High != nil {
			hi = w.toIdx(ft.termOf(x.High))
		} else {
			hi = "(str.len " + s.S + ")"
		}
		ft.panicCheck("slice", fmt.Sprintf("(and (<= 0 %s) (<= %s %s) (<= %s (str.len %s)))", lo, lo, hi, hi, s.S), x.Pos())
		ft.define(x, Term{fmt.Sprintf("(str.substr %s %s (- %s %s))", s.S, lo, hi, lo), w.sortOf(x.Type())})
	default:
		panic(unsupportedErr("slice of " + x.X.Type().String()))
	}
}

func (ft *funcTrans) lookup(x *ssa.Lookup) {
	w := ft.w
	st := ft.curSt
	switch mt := x.X.Type().Underlying().(type) {
	case *types.Map:
		m := ft.termOf(x.X)
		ks, vs := w.sortOf(mt.Key()), w.sortOf(mt.Elem())
		hd, hv := w.mapHeaps(ks, vs)
		k := ft.coerceTo(ft.termOf(x.Index), ks)
		in := fmt.Sprintf("(and (not (= %s 0)) (select (select %s %s) %s))", m.S, w.heapSym(st, hd), m.S, k.S)
		val := fmt.Sprintf("(ite %s (select (select %s %s) %s) %s)", in, w.heapSym(st, hv), m.S, k.S, w.zero(vs).S)
		if x.CommaOk {
			c0 := w.declConst(fmt.Sprintf("v_%s.0", x.Name()), vs)
			c1 := w.declConst(fmt.Sprintf("v_%s.1", x.Name()), sortBool)
			w.addFact(fmt.Sprintf("(= %s %s)", c1.S, in))
			w.addFact(fmt.Sprintf("(= %s %s)", c0.S, val))
			ft.assumeWellTyped(c0, st, ft.reach[ft.cur])
			ft.vals[x] = &Val{Tup: []*Val{{T: c0}, {T: c1}}}
			return
		}
		ft.define(x, Term{val, vs})
		ft.assumeWellTyped(ft.vals[x].T, st, ft.reach[ft.cur])
	default:
		// string index
		s := ft.termOf(x.X)
		idx := w.toIdx(ft.termOf(x.Index))
		ft.havocValue(x, "")
		w.declFun("str_byte", []string{"String", w.idxSortName()}, w.sortOf(x.Type()).Name)
		ft.assume(fmt.Sprintf("(= %s (str_byte %s %s))", ft.vals[x].T.S, s.S, idx))
	}
}

func (ft *funcTrans) next(x *ssa.Next) {
	w := ft.w
	ft.havocValue(x, "")
	tup := ft.vals[x].Tup
	rng, ok := x.Iter.(*ssa.Range)
	if !ok || x.IsString {
		return
	}
	mt, ok := rng.X.Type().Underlying().(*types.Map)
	if !ok {
		return
	}
	m := ft.termOf(rng.X)
	ks, vs := w.sortOf(mt.Key()), w.sortOf(mt.Elem())
	hd, hv := w.mapHeaps(ks, vs)
	st := ft.curSt
	// ok => key in domain and value is the stored one (iteration order arbitrary)
	if len(tup) == 3 {
		if tup[1].T.Sort.Name == ks.Name {
			ft.assume(fmt.Sprintf("(=> %s (and (not (= %s 0)) (select (select %s %s) %s)))", tup[0].T.S, m.S, w.heapSym(st, hd), m.S, tup[1].T.S))
			if tup[2].T.Sort.Name == vs.Name {
				ft.assume(fmt.Sprintf("(=> %s (= %s (select (select %s %s) %s)))", tup[0].T.S, tup[2].T.S, w.heapSym(st, hv), m.S, tup[1].T.S))
			}
		}
	}
}

var _ = constant.MakeBool

// sendReqs: obligations on a value about to be sent on a channel.
func (ft *funcTrans) sendReqs(v Term, ch Term, pos token.Pos) {
	if ft.c == nil {
		return
	}
	site := ft.sendSiteOrdinal(pos)
	for k, sr := range ft.c.SendReqs {
		if ft.c.SendSite[k] != 0 && ft.c.SendSite[k] != site {
			continue
		}
		ec := ft.localCtx(ft.curSt)
		ec.env["sent"] = v
		ec.env["sentTo"] = ch
		t := ec.evalBool(sr.E)
		ft.nAsserts++
		o := ft.obligation("sendreq", fmt.Sprintf("send%d.sendreq%d", site, k+1), sr.Src, t.S)
		o.Where = posStr(ft.p.SSA.Fset, pos)
	}
}

// asyncPoint: a channel operation is a point where other goroutines are
// observed; ghost state declared async (e.g. "the context has been
// cancelled") may have changed.
func (ft *funcTrans) asyncPoint() {
	w := ft.w
	for name, srt := range w.P.Spec.Ghosts {
		if !w.P.Spec.Async[name] {
			continue
		}
		h := "G_ghost." + name
		w.heapSorts[h] = srt
		ft.newHeapVersion(ft.curSt, h)
	}
}

// sendSiteOrdinal: 1-based ordinal of the send site at pos among all send
// sites (send statements and send cases of selects) of the function, by source position.
func (ft *funcTrans) sendSiteOrdinal(pos token.Pos) int {
	if ft.sendSites == nil {
		for _, b := range ft.fn.Blocks {
			for _, in := range b.Instrs {
				switch x := in.(type) {
				case *ssa.Send:
					ft.sendSites = append(ft.sendSites, x.Pos())
				case *ssa.Select:
					for _, stt := range x.States {
						if stt.Dir == types.SendOnly {
							ft.sendSites = append(ft.sendSites, stt.Pos)
						}
					}
				}
			}
		}
		sort.Slice(ft.sendSites, func(i, j int) bool { return ft.sendSites[i] < ft.sendSites[j] })
	}
	for i, p := range ft.sendSites {
		if p == pos {
			return i + 1
		}
	}
	return 0
}

// constCellValue: if the Alloc holds a variable that is stored exactly once
// (in the function's entry block) and otherwise only loaded -- also inside
// every closure that captures it -- return the stored value.
func constCellValue(al *ssa.Alloc) (ssa.Value, bool) {
	var stored ssa.Value
	refs := al.Referrers()
	if refs == nil {
		return nil, false
	}
	for _, r := range *refs {
		switch x := r.(type) {
		case *ssa.Store:
			if x.Addr != al || stored != nil || x.Block() != al.Parent().Blocks[0] {
				return nil, false
			}
			stored = x.Val
		case *ssa.UnOp:
		case *ssa.DebugRef:
		case *ssa.MakeClosure:
			fn := x.Fn.(*ssa.Function)
			for i, b := range x.Bindings {
				if b == al && !freeVarReadOnly(fn, fn.FreeVars[i], 0) {
					return nil, false
				}
			}
		default:
			return nil, false
		}
	}
	if stored == nil {
		return nil, false
	}
	switch stored.(type) {
	case *ssa.Parameter, *ssa.Const:
		return stored, true
	}
	return nil, false
}

func freeVarReadOnly(fn *ssa.Function, fv *ssa.FreeVar, depth int) bool {
	if depth > 4 || fv.Referrers() == nil {
		return false
	}
	for _, r := range *fv.Referrers() {
		switch x := r.(type) {
		case *ssa.UnOp, *ssa.DebugRef:
		case *ssa.MakeClosure:
			inner := x.Fn.(*ssa.Function)
			for i, b := range x.Bindings {
				if b == fv && !freeVarReadOnly(inner, inner.FreeVars[i], depth+1) {
					return false
				}
			}
		default:
			return false
		}
	}
	return true
}

// goRequires: `go func(){...}()` of a closure under contract: the closure's preconditions are
// obligations of the spawning function, evaluated over the variables the closure captures (which
// have the same names here; name0, the value when the closure starts, is the current value).
func (ft *funcTrans) goRequires(x *ssa.Go) {
	mc, ok := x.Call.Value.(*ssa.MakeClosure)
	if !ok || ft.c == nil {
		return
	}
	fn, ok := mc.Fn.(*ssa.Function)
	if !ok {
		return
	}
	c := ft.p.Contracts[fn.String()]
	if c == nil || len(c.Requires) == 0 {
		return
	}
	ec := ft.localCtx(ft.curSt)
	// captured variables by their own names (cells of this function or plain values)
	for i, fv := range fn.FreeVars {
		b := mc.Bindings[i]
		v := ft.valOf(b)
		if v.L != nil {
			ec.cells[fv.Name()] = v.L
			delete(ec.env, fv.Name())
			continue
		}
		if v.Tup != nil || v.Bad != "" {
			continue
		}
		if pt, isPtr := fv.Type().Underlying().(*types.Pointer); isPtr {
			if _, isAlloc := b.(*ssa.Alloc); isAlloc {
				ec.cells[fv.Name()] = ft.locOfRef(v.T.S, pt.Elem())
				delete(ec.env, fv.Name())
				continue
			}
		}
		ec.env[fv.Name()] = v.T
	}
	ec.lets = c.Lets
	for i, r := range c.Requires {
		var t Term
		failed := ""
		func() {
			defer func() {
				if rr := recover(); rr != nil {
					if ue, ok := rr.(unsupportedErr); ok {
						failed = string(ue)
						return
					}
					panic(rr)
				}
			}()
			t = ec.evalBool(substEntryNames(r.E))
		}()
		if failed != "" {
			ft.notes = append(ft.notes, fmt.Sprintf("precondition %d of %s not checked at the go statement (%s)", i+1, fn.String(), failed))
			continue
		}
		o := ft.obligation("requires", fmt.Sprintf("go%d.%s.requires%d", ft.nCalls, shortName(fn.String()), i+1), r.Src, t.S)
		o.Where = posStr(ft.p.SSA.Fset, x.Pos())
	}
}

// substEntryNames rewrites identifiers name0 to name (the value when the closure starts is the
// value at the go statement).
func substEntryNames(e Expr) Expr {
	switch x := e.(type) {
	case *EIdent:
		if strings.HasSuffix(x.Name, "0") && len(x.Name) > 1 {
			return &EIdent{Name: strings.TrimSuffix(x.Name, "0")}
		}
		return x
	case *EUnary:
		return &EUnary{x.Op, substEntryNames(x.X)}
	case *EBinary:
		return &EBinary{x.Op, substEntryNames(x.L), substEntryNames(x.R)}
	case *EQuant:
		return &EQuant{Forall: x.Forall, Vars: x.Vars, Body: substEntryNames(x.Body), Triggers: x.Triggers}
	case *ECond:
		return &ECond{substEntryNames(x.C), substEntryNames(x.T), substEntryNames(x.F)}
	case *EOld:
		return substEntryNames(x.X) // old state of the closure = state at the go statement
	case *EField:
		return &EField{substEntryNames(x.X), x.Name}
	case *EIndex:
		return &EIndex{substEntryNames(x.X), substEntryNames(x.I)}
	case *ECall:
		n := &ECall{Fn: x.Fn}
		for _, a := range x.Args {
			n.Args = append(n.Args, substEntryNames(a))
		}
		return n
	}
	return e
}

// recordSent: when the spec declares the ghost set `sentSet (Array Int Bool)`, every integer-like
// value sent on a channel is entered into it (under cond: the send case of a select was chosen).
func (ft *funcTrans) recordSent(v Term, cond string) {
	w := ft.w
	srt, ok := w.P.Spec.Ghosts["sentSet"]
	if !ok || w.BV || v.Sort.Kind != KInt {
		return
	}
	h := "G_ghost.sentSet"
	w.heapSorts[h] = srt
	old := w.heapSym(ft.curSt, h)
	nw := ft.newHeapVersion(ft.curSt, h)
	if cond == "true" {
		w.addFact(fmt.Sprintf("(= %s (store %s %s true))", nw, old, v.S))
		return
	}
	w.addFact(fmt.Sprintf("(=> %s (= %s (store %s %s true)))", cond, nw, old, v.S))
	w.addFact(fmt.Sprintf("(=> (not %s) (= %s %s))", cond, nw, old))
}

// countSendAttempt: when the spec declares the ghost counter `sendAttempts Int`, every send
// statement and every select with a send case increments it.
func (ft *funcTrans) countSendAttempt() {
	w := ft.w
	srt, ok := w.P.Spec.Ghosts["sendAttempts"]
	if !ok || w.BV {
		return
	}
	h := "G_ghost.sendAttempts"
	w.heapSorts[h] = srt
	old := w.heapSym(ft.curSt, h)
	nw := ft.newHeapVersion(ft.curSt, h)
	w.addFact(fmt.Sprintf("(= %s (+ %s 1))", nw, old))
}
