package main

// Model of encoding/xml.Encoder as a ghost token sequence (spec/XML.smt2:
// ghosts emitN, emitName): every Encode / EncodeElement / EncodeToken call
// appends one entry. For Encode and EncodeElement the entry is the element
// name encoding/xml gives to the value, computed here from the static Go type
// by the package's documented naming rule (explicit start element > tag of
// the XMLName field > name of the marshalled type; slices and pointers are
// named after their element type); the entry stands for the run of elements
// the value produces (possibly empty). For EncodeToken it is "<name" for a
// start element and "</name" for an end element. The calls write nothing
// else the verified code can see; the returned error is arbitrary.
// This is a trusted model of package encoding/xml, listed in the evidence.

import (
	"fmt"
	"go/types"
	"reflect"
	"strings"

	"golang.org/x/tools/go/ssa"
)

// xmlElemName: the element name encoding/xml uses for a value of type t
// marshalled without an explicit start element ("" if it cannot be determined statically).
func xmlElemName(t types.Type) string {
	for {
		switch u := t.Underlying().(type) {
		case *types.Pointer:
			t = u.Elem()
			continue
		case *types.Slice:
			if b, ok := u.Elem().Underlying().(*types.Basic); ok && b.Kind() == types.Byte {
				break
			}
			t = u.Elem()
			continue
		}
		break
	}
	if st, ok := t.Underlying().(*types.Struct); ok {
		for i := 0; i < st.NumFields(); i++ {
			if st.Field(i).Name() == "XMLName" {
				tag := reflect.StructTag(st.Tag(i)).Get("xml")
				if j := strings.Index(tag, ","); j >= 0 {
					tag = tag[:j]
				}
				if j := strings.LastIndex(tag, " "); j >= 0 {
					tag = tag[j+1:] // "namespace name"
				}
				if tag != "" && tag != "-" {
					return tag
				}
			}
		}
	}
	if n, ok := t.(*types.Named); ok {
		return n.Obj().Name()
	}
	return ""
}

// xmlEncoderCall handles calls of (*xml.Encoder).Encode/EncodeElement/EncodeToken when the spec
// declares the ghosts emitN and emitName. It returns false if the call is not one of them.
func (ft *funcTrans) xmlEncoderCall(com *ssa.CallCommon, val *ssa.Call) bool {
	callee := com.StaticCallee()
	if callee == nil {
		return false
	}
	name := callee.String()
	if !strings.HasPrefix(name, "(*encoding/xml.Encoder).Encode") {
		return false
	}
	w := ft.w
	if _, ok := w.P.Spec.Ghosts["emitN"]; !ok {
		return false
	}
	st := ft.curSt
	hn, hname := "G_ghost.emitN", "G_ghost.emitName"
	w.heapSorts[hn] = w.P.Spec.Ghosts["emitN"]
	w.heapSorts[hname] = w.P.Spec.Ghosts["emitName"]
	oldN := w.heapSym(st, hn)
	oldNames := w.heapSym(st, hname)
	entry := "" // SMT string term of the appended entry, "" = unknown
	argType := func(v ssa.Value) (types.Type, ssa.Value) {
		if mi, ok := v.(*ssa.MakeInterface); ok {
			return mi.X.Type(), mi.X
		}
		return nil, nil
	}
	switch callee.Name() {
	case "Encode":
		if t, _ := argType(com.Args[1]); t != nil {
			if n := xmlElemName(t); n != "" {
				entry = strLit(n)
			}
		}
	case "EncodeElement":
		// explicit start element wins
		s := ft.valOf(com.Args[2])
		if s.L == nil && s.Tup == nil && s.Bad == "" && s.T.Sort.Kind == KStruct {
			entry = ft.xmlNameLocal(s.T)
		}
	case "EncodeToken":
		if t, x := argType(com.Args[1]); t != nil {
			v := ft.valOf(x)
			if v.L == nil && v.Tup == nil && v.Bad == "" && v.T.Sort.Kind == KStruct {
				if nt, ok := t.(*types.Named); ok && nt.Obj().Pkg() != nil && nt.Obj().Pkg().Path() == "encoding/xml" {
					switch nt.Obj().Name() {
					case "StartElement":
						entry = fmt.Sprintf("(str.++ \"<\" %s)", ft.xmlNameLocal(v.T))
					case "EndElement":
						entry = fmt.Sprintf("(str.++ \"</\" %s)", ft.xmlNameLocal(v.T))
					}
				}
			}
		}
	default:
		return false
	}
	w.assumptions["encoding/xml.Encoder modelled as a ghost token sequence; element names computed from Go types by the package's naming rule (cmd/govc/xmlmodel.go)"] = true
	newN := ft.newHeapVersion(st, hn)
	newNames := ft.newHeapVersion(st, hname)
	w.addFact(fmt.Sprintf("(= %s (+ %s 1))", newN, oldN))
	if entry != "" {
		w.addFact(fmt.Sprintf("(= %s (store %s %s %s))", newNames, oldNames, oldN, entry))
	} else {
		e := w.declConstRaw(w.fresh("xmlentry"), "String")
		w.addFact(fmt.Sprintf("(= %s (store %s %s %s))", newNames, oldNames, oldN, e))
	}
	if val != nil {
		ft.havocValue(val, "")
	}
	return true
}

// xmlNameLocal: the term for x.Name.Local of a StartElement/EndElement struct value term.
func (ft *funcTrans) xmlNameLocal(t Term) string {
	w := ft.w
	for _, fi := range w.fieldsOf(t.Sort) {
		if fi.Name == "Name" {
			nameT := fmt.Sprintf("(%s %s)", q(fi.Acc), t.S)
			for _, f2 := range w.fieldsOf(fi.Sort) {
				if f2.Name == "Local" {
					return fmt.Sprintf("(%s %s)", q(f2.Acc), nameT)
				}
			}
		}
	}
	return w.declConstRaw(w.fresh("xmlname"), "String")
}

// isXMLEncoderCall: a call that xmlEncoderCall models (so that callreq clauses can be evaluated first).
func (ft *funcTrans) isXMLEncoderCall(com *ssa.CallCommon) bool {
	callee := com.StaticCallee()
	if callee == nil || !strings.HasPrefix(callee.String(), "(*encoding/xml.Encoder).Encode") {
		return false
	}
	_, ok := ft.w.P.Spec.Ghosts["emitN"]
	return ok
}
