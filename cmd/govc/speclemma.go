package main

// Spec lemmas: a top-level (assert F) in a spec file that is preceded by a
// comment line "; lemma <name>" is (1) proved once, standalone, from the
// spec text that precedes it (obligation spec:<file>#lemma.<name>) and
// (2) available as an axiom in every query that includes the spec file.
// An unproved lemma is reported as a violation: it is never silently trusted.

import (
	"fmt"
	"os"
	"path/filepath"
	"strings"
)

type specLemma struct {
	File   *SpecFile
	Name   string
	Before string // spec text preceding the lemma
	Form   string // the asserted formula
}

func findSpecLemmas(sf *SpecFile) []specLemma {
	var out []specLemma
	lines := strings.Split(sf.Text, "\n")
	offset := 0
	for i, ln := range lines {
		t := strings.TrimSpace(ln)
		if strings.HasPrefix(t, "; lemma ") {
			name := strings.TrimSpace(strings.TrimPrefix(t, "; lemma "))
			// the next top-level form
			rest := strings.Join(lines[i+1:], "\n")
			xs, err := parseSexps(rest)
			if err != nil || len(xs) == 0 || !xs[0].isL || len(xs[0].list) != 2 || xs[0].list[0].atom != "assert" {
				continue
			}
			out = append(out, specLemma{File: sf, Name: name, Before: sf.Text[:offset], Form: xs[0].list[1].String()})
		}
		offset += len(ln) + 1
	}
	return out
}

func runSpecLemmas(prog *Program, o *CheckOpts, tmp string, timeout int) []ExtraResult {
	var out []ExtraResult
	for _, sf := range prog.Spec.Files {
		lemmas := findSpecLemmas(sf)
		if len(lemmas) == 0 {
			continue
		}
		for _, lm := range lemmas {
			w := newWorld(prog, sf.Mode == "bv")
			w.predeclareSpecTypes()
			var sb strings.Builder
			sb.WriteString("(set-logic ALL)\n")
			sb.WriteString(fmt.Sprintf("(declare-datatypes ((Slice 0)) (((mk-slice (s-arr Int) (s-off %s) (s-len %s) (s-cap %s)))))\n", w.idxSortName(), w.idxSortName(), w.idxSortName()))
			sb.WriteString("(declare-datatypes ((Iface 0)) (((mk-iface (i-dyn Int) (i-val Int)))))\n")
			sb.WriteString(preludeInt)
			for _, d := range w.sortDecls[2:] {
				sb.WriteString(d + "\n")
			}
			// earlier spec files of the same mode, then this file up to the lemma
			for _, other := range prog.Spec.Files {
				if other == sf {
					break
				}
				if other.Mode != "" && sf.Mode != "" && other.Mode != sf.Mode {
					continue
				}
				sb.WriteString(other.Text + "\n")
			}
			sb.WriteString(lm.Before + "\n")
			sb.WriteString("(assert (not " + lm.Form + "))\n(check-sat)\n")
			name := "spec:" + filepath.Base(sf.Path) + "#lemma." + lm.Name
			r := solve(sb.String(), tmp, name, timeout, o.Seed, false)
			if r.Status != "unsat" {
				r = solve(sb.String(), tmp, name+".retry", timeout*4, o.Seed+1, false)
			}
			er := ExtraResult{Name: name, Kind: "lemma", Clause: truncate(lm.Form, 300), OK: r.Status == "unsat", Engine: r.Solver, Detail: r.Status + "\n" + truncate(r.Output, 2000)}
			out = append(out, er)
		}
	}
	_ = os.Getenv
	return out
}
