package main

// C05 structural obligations (no SMT): the top-level osmjson keys.
//
// OSM.MarshalJSON and (*OSM).UnmarshalJSON go through an anonymous struct
// whose json tags are the top-level keys of an osmjson document (version,
// generator, copyright, attribution, license, elements). Checked on the real
// source: every field of that struct carries the key of its own name, the
// values the marshaler puts into the struct line up with the fields (field F
// is filled from o.F, Elements from o.Objects()), and the unmarshaler copies
// field F back into o.F.

import (
	"fmt"
	"go/ast"
	"go/types"
	"reflect"
	"strings"

	"golang.org/x/tools/go/packages"
)

func init() { extraCheckers["c05shape"] = checkC05Shape }

var c05Keys = map[string]string{"Version": "version", "Generator": "generator", "Copyright": "copyright", "Attribution": "attribution", "License": "license", "Elements": "elements"}

func checkC05Shape(prog *Program, o *CheckOpts) []ExtraResult {
	var out []ExtraResult
	add := func(name, clause string, ok bool, detail, where string) {
		out = append(out, ExtraResult{Name: "(schema)C05#" + name, Kind: "schema", Clause: clause, OK: ok, Engine: "govc-schema", Detail: detail, Where: where})
	}
	var root *packages.Package
	seen := map[string]bool{}
	var walk func(pk *packages.Package)
	walk = func(pk *packages.Package) {
		if seen[pk.PkgPath] {
			return
		}
		seen[pk.PkgPath] = true
		if pk.PkgPath == modPath {
			root = pk
		}
		for _, im := range pk.Imports {
			walk(im)
		}
	}
	for _, pk := range prog.Pkgs {
		walk(pk)
	}
	if root == nil {
		add("packages", "package osm is loaded", false, "not loaded", "")
		return out
	}
	found := map[string]bool{}
	for _, f := range root.Syntax {
		for _, d := range f.Decls {
			fd, ok := d.(*ast.FuncDecl)
			if !ok || fd.Recv == nil || fd.Body == nil || len(fd.Recv.List) != 1 || len(fd.Recv.List[0].Names) != 1 {
				continue
			}
			if fd.Name.Name != "MarshalJSON" && fd.Name.Name != "UnmarshalJSON" {
				continue
			}
			rt := types.ExprString(fd.Recv.List[0].Type)
			if rt != "OSM" && rt != "*OSM" {
				continue
			}
			recv := fd.Recv.List[0].Names[0].Name
			fn := fd.Name.Name
			found[fn] = true
			// the anonymous struct literal
			var lit *ast.CompositeLit
			ast.Inspect(fd.Body, func(n ast.Node) bool {
				if cl, ok := n.(*ast.CompositeLit); ok && lit == nil {
					if _, isStruct := cl.Type.(*ast.StructType); isStruct {
						lit = cl
					}
				}
				return true
			})
			if lit == nil {
				add(fn+".struct", "the top-level document is an anonymous struct", false, "not found", posStr(root.Fset, fd.Pos()))
				continue
			}
			st, _ := root.TypesInfo.TypeOf(lit).Underlying().(*types.Struct)
			if st == nil {
				add(fn+".struct", "the top-level document is an anonymous struct", false, "no struct type", posStr(root.Fset, lit.Pos()))
				continue
			}
			add(fn+".fields", "the top-level document has the six osmjson keys", st.NumFields() == len(c05Keys), fmt.Sprintf("%d fields", st.NumFields()), posStr(root.Fset, lit.Pos()))
			for i := 0; i < st.NumFields(); i++ {
				name := st.Field(i).Name()
				tag := strings.Split(reflect.StructTag(st.Tag(i)).Get("json"), ",")[0]
				add(fn+".key."+name, fmt.Sprintf("field %s of the top-level document is the osmjson key %q", name, c05Keys[name]), c05Keys[name] != "" && tag == c05Keys[name], fmt.Sprintf("json tag %q", tag), posStr(root.Fset, lit.Pos()))
			}
			if fn == "MarshalJSON" {
				for i, el := range lit.Elts {
					fname, val := "", el
					if kv, ok := el.(*ast.KeyValueExpr); ok {
						fname, val = types.ExprString(kv.Key), kv.Value
					} else if i < st.NumFields() {
						fname = st.Field(i).Name()
					}
					want := recv + "." + fname
					if fname == "Elements" {
						want = recv + ".Objects()"
					}
					got := types.ExprString(val)
					add("MarshalJSON.value."+fname, fmt.Sprintf("field %s of the document is filled from %s", fname, want), got == want, "filled from "+got, posStr(root.Fset, el.Pos()))
				}
				add("MarshalJSON.values", "every field of the document is filled", len(lit.Elts) == st.NumFields(), fmt.Sprintf("%d values for %d fields", len(lit.Elts), st.NumFields()), posStr(root.Fset, lit.Pos()))
			} else {
				// o.F = s.F for the plain text fields
				copied := map[string]string{}
				ast.Inspect(fd.Body, func(n ast.Node) bool {
					as, ok := n.(*ast.AssignStmt)
					if !ok || len(as.Lhs) != 1 || len(as.Rhs) != 1 {
						return true
					}
					l, ok1 := as.Lhs[0].(*ast.SelectorExpr)
					r, ok2 := as.Rhs[0].(*ast.SelectorExpr)
					if ok1 && ok2 {
						if li, ok := l.X.(*ast.Ident); ok && li.Name == recv {
							copied[l.Sel.Name] = types.ExprString(r)
						}
					}
					return true
				})
				for _, fname := range []string{"Generator", "Copyright", "Attribution", "License"} {
					got := copied[fname]
					add("UnmarshalJSON.copy."+fname, fmt.Sprintf("%s.%s is taken from field %s of the document", recv, fname, fname), strings.HasSuffix(got, "."+fname), "taken from "+got, posStr(root.Fset, fd.Pos()))
				}
			}
		}
	}
	add("functions", "OSM has hand-written MarshalJSON and UnmarshalJSON", found["MarshalJSON"] && found["UnmarshalJSON"], fmt.Sprint(found), "")
	return out
}
