package main

// Spec database: SMT-LIB files under /verif/spec with spec functions,
// axioms and lemma facts. Function signatures are extracted from
// declare-fun / define-fun / define-fun-rec headers so that contract
// expressions can call them.

import (
	"fmt"
	"os"
	"path/filepath"
	"strings"
)

type SpecFn struct {
	Name string
	Args []string
	Ret  string
}

type SpecFile struct {
	Path     string
	Text     string
	UsesType []string // "pkgrel.Type" to be declared before the text
	TextNoAx string   // Text without top-level quantified assertions (for vacuity covers)
	Mode     string   // "int", "bv", or "" (both)
}

type SpecDB struct {
	Fns    map[string]*SpecFn
	Files  []*SpecFile
	Ghosts map[string]string // ghost heap name -> SMT sort ("; ghost name sort" lines in spec files)
	StructInv map[string][]string // struct sort name -> SMT formulas over $v (data-structure invariants of dependencies)
	Async  map[string]bool   // ghosts that may change at every channel operation ("; ghost-async name sort")
}

type sexp struct {
	atom string
	list []*sexp
	isL  bool
}

func (s *sexp) String() string {
	if !s.isL {
		return s.atom
	}
	var parts []string
	for _, c := range s.list {
		parts = append(parts, c.String())
	}
	return "(" + strings.Join(parts, " ") + ")"
}

func parseSexps(src string) ([]*sexp, error) {
	var stack []*sexp
	top := &sexp{isL: true}
	cur := top
	i := 0
	n := len(src)
	for i < n {
		c := src[i]
		switch {
		case c == ';':
			for i < n && src[i] != '\n' {
				i++
			}
		case c == ' ' || c == '\t' || c == '\n' || c == '\r':
			i++
		case c == '(':
			nl := &sexp{isL: true}
			cur.list = append(cur.list, nl)
			stack = append(stack, cur)
			cur = nl
			i++
		case c == ')':
			if len(stack) == 0 {
				return nil, fmt.Errorf("unbalanced )")
			}
			cur = stack[len(stack)-1]
			stack = stack[:len(stack)-1]
			i++
		case c == '"':
			j := i + 1
			for j < n {
				if src[j] == '"' {
					if j+1 < n && src[j+1] == '"' {
						j += 2
						continue
					}
					break
				}
				j++
			}
			cur.list = append(cur.list, &sexp{atom: src[i : j+1]})
			i = j + 1
		case c == '|':
			j := i + 1
			for j < n && src[j] != '|' {
				j++
			}
			cur.list = append(cur.list, &sexp{atom: src[i : j+1]})
			i = j + 1
		default:
			j := i
			for j < n && !strings.ContainsRune(" \t\n\r();", rune(src[j])) {
				j++
			}
			cur.list = append(cur.list, &sexp{atom: src[i:j]})
			i = j
		}
	}
	if len(stack) != 0 {
		return nil, fmt.Errorf("unbalanced (")
	}
	return top.list, nil
}

func loadSpecFile(path string) (*SpecFile, []*SpecFn, error) {
	b, err := os.ReadFile(path)
	if err != nil {
		return nil, nil, err
	}
	sf := &SpecFile{Path: path, Text: string(b)}
	for _, line := range strings.Split(sf.Text, "\n") {
		line = strings.TrimSpace(line)
		if strings.HasPrefix(line, "; uses-type ") {
			sf.UsesType = append(sf.UsesType, strings.Fields(strings.TrimPrefix(line, "; uses-type "))...)
		}
		if strings.HasPrefix(line, "; mode ") {
			sf.Mode = strings.TrimSpace(strings.TrimPrefix(line, "; mode "))
		}
	}
	xs, err := parseSexps(sf.Text)
	if err != nil {
		return nil, nil, fmt.Errorf("%s: %v", path, err)
	}
	var fns []*SpecFn
	{
		var sb strings.Builder
		for _, x := range xs {
			if x.isL && len(x.list) == 2 && x.list[0].atom == "assert" && x.list[1].isL && len(x.list[1].list) > 0 && x.list[1].list[0].atom == "forall" {
				continue
			}
			sb.WriteString(x.String() + "\n")
		}
		sf.TextNoAx = sb.String()
	}
	for _, x := range xs {
		if x.isL && len(x.list) == 3 && x.list[0].atom == "declare-const" {
			fns = append(fns, &SpecFn{Name: x.list[1].atom, Ret: x.list[2].String()})
			continue
		}
		if !x.isL || len(x.list) < 4 {
			continue
		}
		switch x.list[0].atom {
		case "declare-fun":
			f := &SpecFn{Name: x.list[1].atom, Ret: x.list[3].String()}
			for _, a := range x.list[2].list {
				f.Args = append(f.Args, a.String())
			}
			fns = append(fns, f)
		case "define-fun", "define-fun-rec":
			f := &SpecFn{Name: x.list[1].atom, Ret: x.list[3].String()}
			for _, a := range x.list[2].list {
				f.Args = append(f.Args, a.list[1].String())
			}
			fns = append(fns, f)
		}
	}
	return sf, fns, nil
}

func loadSpecs(verifDir string, names []string) (*SpecDB, error) {
	db := &SpecDB{Fns: map[string]*SpecFn{}, Ghosts: map[string]string{}, Async: map[string]bool{}, StructInv: map[string][]string{}}
	for _, n := range names {
		sf, fns, err := loadSpecFile(filepath.Join(verifDir, "spec", n))
		if err != nil {
			return nil, err
		}
		db.Files = append(db.Files, sf)
		for _, line := range strings.Split(sf.Text, "\n") {
			line = strings.TrimSpace(line)
			if strings.HasPrefix(line, "; invariant ") {
				f := strings.SplitN(strings.TrimPrefix(line, "; invariant "), " ", 2)
				if len(f) == 2 {
					db.StructInv[f[0]] = append(db.StructInv[f[0]], strings.TrimSpace(f[1]))
				}
			}
			if strings.HasPrefix(line, "; ghost-async ") {
				f := strings.SplitN(strings.TrimPrefix(line, "; ghost-async "), " ", 2)
				if len(f) == 2 {
					db.Ghosts[f[0]] = strings.TrimSpace(f[1])
					db.Async[f[0]] = true
				}
			}
			if strings.HasPrefix(line, "; ghost ") {
				f := strings.SplitN(strings.TrimPrefix(line, "; ghost "), " ", 2)
				if len(f) == 2 {
					db.Ghosts[f[0]] = strings.TrimSpace(f[1])
				}
			}
		}
		for _, f := range fns {
			db.Fns[strings.Trim(f.Name, "|")] = f
		}
	}
	return db, nil
}
