package main

// C03 structural obligations on the real source (no SMT): the streaming
// scanner and the whole-document decoder decode an element with the same
// type-directed decoder.
//
// For every `case "x"` of the element switch in osmxml.(*Scanner).Scan (and
// of osm.(*Action).UnmarshalXML) whose body decodes into a variable of type
// *T with Decoder.DecodeElement:
//   (a) the element name encoding/xml associates with T (tag of its XMLName
//       field, computed by xmlElemName) is x, or T has no XMLName and x is a
//       wrapper name (bounds, old, new);
//   (b) osm.OSM has a field tagged `xml:"x"` whose element type is *T (so
//       xml.Unmarshal of the whole document decodes <x> into the same type).
// The OSM XML element table itself (name -> Go type) is transcribed below and
// compared with both.

import (
	"fmt"
	"go/ast"
	"go/token"
	"go/types"
	"reflect"
	"strconv"
	"strings"

	"golang.org/x/tools/go/packages"
)

func init() { extraCheckers["c03schema"] = checkC03Schema }

// OSM XML: child elements of <osm> and the Go type that holds one of them (transcribed from
// https://wiki.openstreetmap.org/wiki/OSM_XML and the API v0.6 documentation)
var c03Table = map[string]string{
	"bounds": "Bounds", "node": "Node", "way": "Way", "relation": "Relation",
	"changeset": "Changeset", "note": "Note", "user": "User",
}

func checkC03Schema(prog *Program, o *CheckOpts) []ExtraResult {
	var out []ExtraResult
	add := func(name, clause string, ok bool, detail, where string) {
		out = append(out, ExtraResult{Name: "(schema)C03#" + name, Kind: "schema", Clause: clause, OK: ok, Engine: "govc-schema", Detail: detail, Where: where})
	}
	var root, scan *packages.Package
	var walk func(pk *packages.Package, seen map[string]bool)
	walk = func(pk *packages.Package, seen map[string]bool) {
		if seen[pk.PkgPath] {
			return
		}
		seen[pk.PkgPath] = true
		switch pk.PkgPath {
		case modPath:
			root = pk
		case modPath + "/osmxml":
			scan = pk
		}
		for _, im := range pk.Imports {
			walk(im, seen)
		}
	}
	seen := map[string]bool{}
	for _, pk := range prog.Pkgs {
		walk(pk, seen)
	}
	if root == nil || scan == nil || root.Types == nil {
		add("packages", "osm and osmxml are loaded", false, "package not loaded", "")
		return out
	}
	// fields of osm.OSM by xml tag
	osmObj := root.Types.Scope().Lookup("OSM")
	fieldType := map[string]types.Type{}
	if osmObj != nil {
		if st, ok := osmObj.Type().Underlying().(*types.Struct); ok {
			for i := 0; i < st.NumFields(); i++ {
				tag := reflect.StructTag(st.Tag(i)).Get("xml")
				if j := strings.Index(tag, ","); j >= 0 {
					if strings.Contains(tag[j:], "attr") {
						continue
					}
					tag = tag[:j]
				}
				if tag == "" || tag == "-" {
					continue
				}
				t := st.Field(i).Type()
				if sl, ok := t.Underlying().(*types.Slice); ok {
					t = sl.Elem()
				}
				fieldType[tag] = t
			}
		}
	}
	for name, goType := range c03Table {
		ft, ok := fieldType[name]
		got := "<none>"
		if ok {
			got = types.TypeString(ft, func(p *types.Package) string { return "" })
		}
		add("osm-field."+name, fmt.Sprintf("osm.OSM has a field `xml:%q` holding *%s", name, goType), ok && got == "*"+goType, "field type "+got, "")
		if ok {
			en := xmlElemName(ft)
			add("elem-name."+name, fmt.Sprintf("encoding/xml names a %s element %q (or the type has no XMLName)", goType, name), en == name || en == goType && goType == "Bounds", "computed name "+en, "")
		}
	}
	for tag := range fieldType {
		if _, ok := c03Table[tag]; !ok {
			add("osm-field-extra."+tag, "every element field of osm.OSM is in the OSM XML table", false, "unexpected element field "+tag, "")
		}
	}
	// the scanner's switch
	cases := 0
	checkSwitch := func(pk *packages.Package, fnName, recv string, wrappers map[string]bool) {
		for _, f := range pk.Syntax {
			for _, d := range f.Decls {
				fd, ok := d.(*ast.FuncDecl)
				if !ok || fd.Name.Name != fnName || fd.Recv == nil || fd.Body == nil {
					continue
				}
				if !strings.Contains(types.ExprString(fd.Recv.List[0].Type), recv) {
					continue
				}
				ast.Inspect(fd.Body, func(n ast.Node) bool {
					cc, ok := n.(*ast.CaseClause)
					if !ok || len(cc.List) != 1 {
						return true
					}
					bl, ok := cc.List[0].(*ast.BasicLit)
					if !ok || bl.Kind != token.STRING {
						return true
					}
					name, _ := strconv.Unquote(bl.Value)
					// find DecodeElement(&v or v, ...) in the clause
					for _, st := range cc.Body {
						ast.Inspect(st, func(m ast.Node) bool {
							call, ok := m.(*ast.CallExpr)
							if !ok {
								return true
							}
							sel, ok := call.Fun.(*ast.SelectorExpr)
							if !ok || sel.Sel.Name != "DecodeElement" || len(call.Args) != 2 {
								return true
							}
							t := pk.TypesInfo.TypeOf(call.Args[0])
							for {
								p, ok := t.Underlying().(*types.Pointer)
								if !ok {
									break
								}
								t = p.Elem()
							}
							tn := types.TypeString(t, func(p *types.Package) string { return "" })
							where := posStr(pk.Fset, call.Pos())
							cases++
							if wrappers[name] {
								add(fnName+".case."+name, fmt.Sprintf("case %q decodes into the container type", name), tn == "OSM", "decodes into "+tn, where)
								return true
							}
							want, inTable := c03Table[name]
							add(fnName+".case."+name, fmt.Sprintf("case %q decodes into *%s, the type osm.OSM holds for <%s>", name, want, name), inTable && tn == want, "decodes into "+tn, where)
							if inTable {
								en := xmlElemName(t)
								add(fnName+".name."+name, fmt.Sprintf("the decoder of %s accepts element name %q", tn, name), en == name || (en == tn && tn == "Bounds"), "computed name "+en, where)
							}
							return true
						})
					}
					return true
				})
			}
		}
	}
	// a case label of a switch over strings.ToLower(..) that is not lower case can never match:
	// the element it names would silently take the default branch
	for _, pk := range []*packages.Package{scan, root} {
		for _, f := range pk.Syntax {
			ast.Inspect(f, func(n ast.Node) bool {
				sw, ok := n.(*ast.SwitchStmt)
				if !ok || sw.Tag == nil {
					return true
				}
				call, ok := sw.Tag.(*ast.CallExpr)
				if !ok {
					return true
				}
				sel, ok := call.Fun.(*ast.SelectorExpr)
				if !ok || sel.Sel.Name != "ToLower" {
					return true
				}
				for _, st := range sw.Body.List {
					cc, ok := st.(*ast.CaseClause)
					if !ok {
						continue
					}
					for _, e := range cc.List {
						bl, ok := e.(*ast.BasicLit)
						if !ok || bl.Kind != token.STRING {
							continue
						}
						v, _ := strconv.Unquote(bl.Value)
						add("lowercase-label."+v, fmt.Sprintf("case %q of a switch over strings.ToLower(...) is lower case (otherwise it is unreachable)", v), v == strings.ToLower(v), "label "+v, posStr(pk.Fset, bl.Pos()))
					}
				}
				return true
			})
		}
	}
	// root attributes: what the hand-written MarshalXML of a container writes as attribute "a" from field F
	// is read back only if F's struct tag is `xml:"a,attr..."` (the decoder works from the tags)
	attrPairs := 0
	for _, f := range root.Syntax {
		for _, d := range f.Decls {
			fd, ok := d.(*ast.FuncDecl)
			if !ok || fd.Name.Name != "MarshalXML" || fd.Recv == nil || fd.Body == nil || len(fd.Recv.List) != 1 || len(fd.Recv.List[0].Names) != 1 {
				continue
			}
			recvName := fd.Recv.List[0].Names[0].Name
			rt := root.TypesInfo.TypeOf(fd.Recv.List[0].Type)
			if p, ok := rt.(*types.Pointer); ok {
				rt = p.Elem()
			}
			st, ok := rt.Underlying().(*types.Struct)
			if !ok {
				continue
			}
			tn := types.TypeString(rt, func(p *types.Package) string { return "" })
			ast.Inspect(fd.Body, func(n ast.Node) bool {
				cl, ok := n.(*ast.CompositeLit)
				if !ok || types.ExprString(cl.Type) != "xml.Attr" {
					return true
				}
				var attrName, field string
				for _, el := range cl.Elts {
					kv, ok := el.(*ast.KeyValueExpr)
					if !ok {
						continue
					}
					switch types.ExprString(kv.Key) {
					case "Name":
						if inner, ok := kv.Value.(*ast.CompositeLit); ok {
							for _, e2 := range inner.Elts {
								if kv2, ok := e2.(*ast.KeyValueExpr); ok && types.ExprString(kv2.Key) == "Local" {
									if bl, ok := kv2.Value.(*ast.BasicLit); ok && bl.Kind == token.STRING {
										attrName, _ = strconv.Unquote(bl.Value)
									}
								}
							}
						}
					case "Value":
						if sel, ok := kv.Value.(*ast.SelectorExpr); ok {
							if id, ok := sel.X.(*ast.Ident); ok && id.Name == recvName {
								field = sel.Sel.Name
							}
						}
					}
				}
				if attrName == "" || field == "" {
					return true
				}
				attrPairs++
				tag, found := "", false
				for i := 0; i < st.NumFields(); i++ {
					if st.Field(i).Name() == field {
						tag, found = reflect.StructTag(st.Tag(i)).Get("xml"), true
					}
				}
				parts := strings.Split(tag, ",")
				isAttr := false
				for _, p := range parts[1:] {
					if p == "attr" {
						isAttr = true
					}
				}
				add("root-attr."+tn+"."+attrName, fmt.Sprintf("%s.MarshalXML writes attribute %q from field %s, whose tag reads attribute %q back", tn, attrName, field, attrName),
					found && parts[0] == attrName && isAttr, fmt.Sprintf("tag of %s.%s is `xml:%q`", tn, field, tag), posStr(root.Fset, cl.Pos()))
				return true
			})
		}
	}
	add("root-attr.count", "the containers OSM and Change write five root attributes each from their own fields", attrPairs == 10, fmt.Sprintf("%d attribute/field pairs found", attrPairs), "")
	checkSwitch(scan, "Scan", "Scanner", nil)
	add("scan.cases", "the scanner handles the seven OSM XML elements", cases == 7, fmt.Sprintf("%d decoding cases", cases), "")
	before := cases
	checkSwitch(root, "UnmarshalXML", "Action", map[string]bool{"old": true, "new": true})
	add("action.cases", "an augmented diff action handles old, new, node, way, relation", cases-before == 5, fmt.Sprintf("%d decoding cases", cases-before), "")
	return out
}
