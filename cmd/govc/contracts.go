package main

// Parsing of contract files: comment-only Go files (contracts_verif.go in
// /repo packages, lemma harness files in /verif/lemmas, and
// /verif/spec/*.contracts for assumed contracts of dependencies).
// Only lines starting with "//@" are read.

import (
	"bufio"
	"fmt"
	"os"
	"strconv"
	"strings"
)

type Clause struct {
	Src  string
	E    Expr
	File string
	Line int
}

type LoopContract struct {
	IterPost   []*Clause // must hold at the end of every iteration (names of the loop body in scope); checked, never assumed
	OnSkip     []*Clause // must hold at the end of every iteration that wrote nothing (a `continue` path)
	Invariants []*Clause
	Decreases  *Clause   // first component (kept for reporting)
	DecList    []*Clause // lexicographic measure components
}

type Contract struct {
	Key      string // as written
	PkgPath  string // package the file belongs to ("" for stdlib.contracts: Key is absolute)
	Mode     string // "int" (default) or "bv"
	Props    []string
	Trusted  bool // assumed, body not verified
	Requires []*Clause
	Ensures  []*Clause
	Assigns  []*Clause // nil + !HasAssigns => unspecified
	HasAssigns bool
	NoPanic  bool
	Pure     bool // assigns nothing and result is a function of args+heap (used for trusted externals)
	Loops    map[int]*LoopContract
	File     string
	Line     int
	Notes    []string
	// Cases: named sub-cases for known-finding delimitation: ensures labelled
	Labels map[*Clause]string
	Lets   map[string]Expr
	CallReqs []*CallReq // extra conditions at call sites inside this function
	EntryCount string // ghost counter (declared in the spec) that every entry of this function increments
	CancellableSends bool // every channel send of this function sits in a select next to a receive from a context's Done channel
	InitReq  map[int]bool // indexes into Requires: established by package init, not re-proved at call sites
	SendReqs []*Clause  // conditions on values this function sends on a channel ("sent" names the value)
	SendSite []int      // per SendReqs entry: 0 = every send site, k = only the k-th send site in source order
	RecvAssumes []*Clause // assumed about every value received from a channel ("recv", "recvFrom"): the matching sendreq of the sender justifies it
	RetReqs  []*Clause // conditions at every return site, over the function's own variables and result0.. (checked, never assumed by callers)
	Preserves []string // "preserves pkg.T ...": everything may be written except the fields of these struct types (and ghosts)
	Oracle bool     // executable transcription of the property used for counterexample search; not verified
	Covers []string // function-key substrings whose failed obligations this oracle can witness
}

var clauseKeywords = map[string]bool{
	"func": true, "mode": true, "props": true, "trusted": true, "requires": true, "ensures": true, "initrequires": true, "cancellablesends": true, "entrycount": true,
	"assigns": true, "nopanic": true, "pure": true, "loop": true, "invariant": true, "decreases": true,
	"note": true, "funcfield": true, "iface": true, "global": true, "let": true, "oracle": true, "covers": true, "def": true, "callreq": true, "sendreq": true, "preserves": true, "retreq": true, "recvassume": true, "onskip": true, "iterpost": true,
}

// parseContractFile reads //@ lines. pkgPath is the import path of the
// package the file is part of ("" for absolute-key files).
func parseContractFile(path, pkgPath string) ([]*Contract, error) {
	f, err := os.Open(path)
	if err != nil {
		return nil, err
	}
	defer f.Close()
	return parseContractLines(bufio.NewScanner(f), path, pkgPath)
}

func parseContractText(text, path, pkgPath string) ([]*Contract, error) {
	return parseContractLines(bufio.NewScanner(strings.NewReader(text)), path, pkgPath)
}

// CallReq: "callreq <callee substring> : <expr>" -- an obligation at every
// call in this function whose callee name contains the substring, evaluated
// in the caller's state just before the call.
type CallReq struct {
	Callee string
	C      *Clause
}

// Def is a file-level parameterised abbreviation: //@ def name(a, b) = expr
type Def struct {
	Name   string
	Params []string
	Body   Expr
}

// Defs collected while parsing (global namespace).
var globalDefs = map[string]*Def{}

type rawClause struct {
	kw   string
	text string
	line int
}

func parseContractLines(sc *bufio.Scanner, path, pkgPath string) ([]*Contract, error) {
	sc.Buffer(make([]byte, 1<<20), 1<<20)
	var raws []rawClause
	ln := 0
	for sc.Scan() {
		ln++
		line := strings.TrimSpace(sc.Text())
		if !strings.HasPrefix(line, "//@") {
			continue
		}
		body := strings.TrimSpace(strings.TrimPrefix(line, "//@"))
		if body == "" || strings.HasPrefix(body, "--") {
			continue
		}
		// strip trailing comment introduced by " // "
		if i := strings.Index(body, " // "); i >= 0 {
			body = strings.TrimSpace(body[:i])
		}
		first := body
		rest := ""
		if i := strings.IndexAny(body, " \t"); i >= 0 {
			first = body[:i]
			rest = strings.TrimSpace(body[i:])
		}
		if clauseKeywords[first] {
			raws = append(raws, rawClause{first, rest, ln})
		} else {
			if len(raws) == 0 {
				return nil, fmt.Errorf("%s:%d: continuation line without a clause", path, ln)
			}
			raws[len(raws)-1].text += " " + body
		}
	}
	var out []*Contract
	var cur *Contract
	var curLoop *LoopContract
	mk := func(kw string, rc rawClause) (*Clause, error) {
		e, err := parseExpr(rc.text)
		if err != nil {
			return nil, fmt.Errorf("%s:%d: %s: %v", path, rc.line, kw, err)
		}
		return &Clause{Src: rc.text, E: e, File: path, Line: rc.line}, nil
	}
	for _, rc := range raws {
		if rc.kw == "def" {
			i := strings.Index(rc.text, "=")
			lp := strings.Index(rc.text, "(")
			rp := strings.Index(rc.text, ")")
			if i < 0 || lp < 0 || rp < lp || rp > i {
				return nil, fmt.Errorf("%s:%d: def needs name(params) = expr", path, rc.line)
			}
			d := &Def{Name: strings.TrimSpace(rc.text[:lp])}
			for _, prm := range strings.Split(rc.text[lp+1:rp], ",") {
				if prm = strings.TrimSpace(prm); prm != "" {
					d.Params = append(d.Params, prm)
				}
			}
			e, err := parseExpr(rc.text[i+1:])
			if err != nil {
				return nil, fmt.Errorf("%s:%d: def: %v", path, rc.line, err)
			}
			d.Body = e
			globalDefs[d.Name] = d
			continue
		}
		if rc.kw == "func" {
			cur = &Contract{Key: normKey(rc.text), PkgPath: pkgPath, Mode: "int", Loops: map[int]*LoopContract{}, File: path, Line: rc.line}
			curLoop = nil
			out = append(out, cur)
			continue
		}
		if cur == nil {
			return nil, fmt.Errorf("%s:%d: clause %q outside func", path, rc.line, rc.kw)
		}
		switch rc.kw {
		case "mode":
			cur.Mode = rc.text
		case "props":
			cur.Props = append(cur.Props, strings.Fields(rc.text)...)
		case "trusted":
			cur.Trusted = true
		case "pure":
			cur.Pure = true
			cur.HasAssigns = true
		case "nopanic":
			cur.NoPanic = true
		case "callreq":
			i := strings.Index(rc.text, " : ")
			if i < 0 {
				return nil, fmt.Errorf("%s:%d: callreq needs '<callee> : <expr>'", path, rc.line)
			}
			c, err := mk("callreq", rawClause{"callreq", rc.text[i+3:], rc.line})
			if err != nil {
				return nil, err
			}
			cur.CallReqs = append(cur.CallReqs, &CallReq{Callee: strings.TrimSpace(rc.text[:i]), C: c})
		case "sendreq":
			site := 0
			text := rc.text
			if i := strings.Index(text, " : "); i > 0 {
				if k, err := strconv.Atoi(strings.TrimSpace(text[:i])); err == nil {
					site = k
					text = text[i+3:]
				}
			}
			c, err := mk("sendreq", rawClause{"sendreq", text, rc.line})
			if err != nil {
				return nil, err
			}
			cur.SendReqs = append(cur.SendReqs, c)
			cur.SendSite = append(cur.SendSite, site)
		case "recvassume":
			c, err := mk("recvassume", rc)
			if err != nil {
				return nil, err
			}
			cur.RecvAssumes = append(cur.RecvAssumes, c)
		case "retreq":
			c, err := mk("retreq", rc)
			if err != nil {
				return nil, err
			}
			cur.RetReqs = append(cur.RetReqs, c)
		case "preserves":
			for _, f := range strings.Fields(strings.ReplaceAll(rc.text, ",", " ")) {
				cur.Preserves = append(cur.Preserves, f)
			}
		case "cancellablesends":
			cur.CancellableSends = true
		case "entrycount":
			// `entrycount G`: a ghost statement at entry, G = G + 1 (old(G) is the value before it). With
			// `ensures G > old(G)` it lets a caller state "this call was made" (an iterpost G > athead(G)).
			cur.EntryCount = strings.TrimSpace(rc.text)
		case "oracle":
			cur.Oracle = true
		case "covers":
			cur.Covers = append(cur.Covers, strings.TrimSpace(rc.text))
		case "note":
			cur.Notes = append(cur.Notes, rc.text)
		case "let":
			i := strings.Index(rc.text, "=")
			if i < 0 {
				return nil, fmt.Errorf("%s:%d: let needs name = expr", path, rc.line)
			}
			e, err := parseExpr(rc.text[i+1:])
			if err != nil {
				return nil, fmt.Errorf("%s:%d: let: %v", path, rc.line, err)
			}
			if cur.Lets == nil {
				cur.Lets = map[string]Expr{}
			}
			cur.Lets[strings.TrimSpace(rc.text[:i])] = e
		case "requires", "ensures", "initrequires":
			c, err := mk(rc.kw, rc)
			if err != nil {
				return nil, err
			}
			if rc.kw == "initrequires" {
				// a fact about package-level state that package initialisation establishes (proved as a
				// postcondition of init) and no function changes: assumed in the body like a requires, not
				// re-proved at every call site (recorded there as an assumption)
				if cur.InitReq == nil {
					cur.InitReq = map[int]bool{}
				}
				cur.InitReq[len(cur.Requires)] = true
				cur.Requires = append(cur.Requires, c)
			} else if rc.kw == "requires" {
				cur.Requires = append(cur.Requires, c)
			} else {
				cur.Ensures = append(cur.Ensures, c)
			}
		case "assigns":
			cur.HasAssigns = true
			if strings.TrimSpace(rc.text) == "nothing" {
				break
			}
			for _, part := range splitTopLevel(rc.text, ',') {
				c, err := mk("assigns", rawClause{"assigns", part, rc.line})
				if err != nil {
					return nil, err
				}
				cur.Assigns = append(cur.Assigns, c)
			}
		case "loop":
			n, err := strconv.Atoi(strings.TrimSpace(rc.text))
			if err != nil {
				return nil, fmt.Errorf("%s:%d: loop ordinal: %v", path, rc.line, err)
			}
			curLoop = &LoopContract{}
			cur.Loops[n] = curLoop
		case "iterpost":
			if curLoop == nil {
				return nil, fmt.Errorf("%s:%d: iterpost outside loop", path, rc.line)
			}
			c, err := mk("iterpost", rc)
			if err != nil {
				return nil, err
			}
			curLoop.IterPost = append(curLoop.IterPost, c)
		case "onskip":
			if curLoop == nil {
				return nil, fmt.Errorf("%s:%d: onskip outside loop", path, rc.line)
			}
			c, err := mk("onskip", rc)
			if err != nil {
				return nil, err
			}
			curLoop.OnSkip = append(curLoop.OnSkip, c)
		case "invariant", "decreases":
			if curLoop == nil {
				return nil, fmt.Errorf("%s:%d: %s outside loop", path, rc.line, rc.kw)
			}
			rc1 := rc
			if rc.kw == "decreases" {
				rc1.text = splitTopLevel(rc.text, ',')[0]
			}
			c, err := mk(rc.kw, rc1)
			if err != nil {
				return nil, err
			}
			c.Src = rc.text
			if rc.kw == "invariant" {
				curLoop.Invariants = append(curLoop.Invariants, c)
			} else {
				curLoop.Decreases = c
				curLoop.DecList = nil
				for _, part := range splitTopLevel(rc.text, ',') {
					pc, err := mk("decreases", rawClause{"decreases", part, rc.line})
					if err != nil {
						return nil, err
					}
					curLoop.DecList = append(curLoop.DecList, pc)
				}
			}
		default:
			return nil, fmt.Errorf("%s:%d: unsupported clause %q", path, rc.line, rc.kw)
		}
	}
	return out, nil
}

// normKey turns "NodeID.FeatureID" into "(NodeID).FeatureID" and leaves
// "(*Way).applyUpdate", "ParseFeatureID", "io.ReadFull" alone.
func normKey(k string) string {
	k = strings.TrimSpace(k)
	return k
}

func splitTopLevel(s string, sep byte) []string {
	var out []string
	depth := 0
	start := 0
	for i := 0; i < len(s); i++ {
		switch s[i] {
		case '(', '[', '{':
			depth++
		case ')', ']', '}':
			depth--
		default:
			if s[i] == sep && depth == 0 {
				out = append(out, strings.TrimSpace(s[start:i]))
				start = i + 1
			}
		}
	}
	out = append(out, strings.TrimSpace(s[start:]))
	return out
}
