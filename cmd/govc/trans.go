package main

// SSA function -> verification conditions.

import (
	"fmt"
	"strings"
	"go/token"
	"go/types"
	"math/big"
	"sort"

	"golang.org/x/tools/go/ssa"
)

type Obligation struct {
	Name   string `json:"name"`
	Func   string `json:"func"`
	Kind   string `json:"kind"`
	Clause string `json:"clause"`
	Where  string `json:"where,omitempty"`
	NFacts int    `json:"-"`
	Goal   string `json:"-"`
	Reach  string `json:"-"`
	W      *World `json:"-"`
	// expected: "unsat" (valid) normally; cover obligations expect "sat"
	Cover bool `json:"cover,omitempty"`
	Probe bool `json:"probe,omitempty"` // must-fail query (goal false): "unsat" means the assumptions on this path are contradictory
	// Anc: blocks whose facts are relevant (ancestors of the obligation's block, itself included); nil = all
	Anc map[int]bool `json:"-"`
	// Focus: tag of the one loop-invariant assumption this obligation most likely needs
	// ("inv:<loop>:<k>"); the focused query variant drops the other invariant assumptions.
	Focus    string          `json:"-"`
	FocusSet map[string]bool `json:"-"` // invariant tags kept in the focused variant
	// model values of interest: symbol -> description
	Watch map[string]string `json:"-"`
}

type Val struct {
	T   Term
	L   *Loc
	Tup []*Val
	Bad string
	Opaque bool // L and T both set: interior address of an opaque external struct
	// closure info
	Fn *ssa.Function
}

const (
	LField = iota
	LElem
	LCell
	LLocal
	LGlobal
	LObj // pointer to heap struct object (whole)
	LArr // pointer to heap array (whole)
	LSentinel
)

type pathStep struct {
	IsIdx bool
	Field int
	Idx   string
	In    *Sort // sort of the value the step is applied to
	Out   *Sort
}

type Loc struct {
	Kind     int
	Base     string
	Idx      string
	Heap     string
	LocalKey string
	Root     *Sort // sort of the root value
	Path     []pathStep
	Sort     *Sort // sort of pointee (after path)
}

func (l *Loc) extend(st pathStep) *Loc {
	n := *l
	n.Path = append(append([]pathStep{}, l.Path...), st)
	n.Sort = st.Out
	return &n
}

type loopInfo struct {
	header   *ssa.BasicBlock
	body     map[*ssa.BasicBlock]bool
	backs    []*ssa.BasicBlock
	ordinal  int
	lc       *LoopContract
	modHeaps map[string]bool
	modLoc   map[string]bool
	modAll   bool
	hdrState *State
	decVal   string // measure at header
	decVals  []string
	pos      token.Pos
}

type funcTrans struct {
	appendSites []token.Pos // append call sites by source position (for "callreq append#k")
	retreqOK  map[int]int    // per retreq clause: number of return sites where it was evaluated
	retreqErr map[int]string // last reason it was skipped
	iterpostOK map[string]bool // "loop.k": iterpost clause evaluated at some back edge
	varargBefore map[ssa.Value]string // one-element varargs arrays: element heap symbol before the array was allocated
	pureCache map[string]*Val // results of pure calls by (callee, arguments, heap versions)
	w        *World
	p        *Program
	fn       *ssa.Function
	c        *Contract
	vals     map[ssa.Value]*Val
	reach    map[*ssa.BasicBlock]string
	edges    map[[2]int]string
	out      map[*ssa.BasicBlock]*State
	entry    *State
	env      map[string]Term // parameter names -> terms
	obls     []*Obligation
	loops    map[*ssa.BasicBlock]*loopInfo
	loopList []*loopInfo
	universe map[string]bool // heap names discovered in pass 1
	pass     int
	defers   []*ssa.Defer
	nCalls   int
	nAsserts int
	cur      *ssa.BasicBlock
	curSt    *State
	trusted  map[string]bool
	notes    []string
	isLemma  bool
	localSorts map[string]*Sort
	fspec *frameSpec
	sendSites []token.Pos
	iterMode string
	envCells map[string]*Loc
	ancMemo map[*ssa.BasicBlock]map[int]bool
	hdrAssumed map[*ssa.BasicBlock]bool
}

func (ft *funcTrans) pkgTypes() *types.Package {
	if ft.fn.Pkg != nil {
		return ft.fn.Pkg.Pkg
	}
	if ft.fn.Parent() != nil && ft.fn.Parent().Pkg != nil {
		return ft.fn.Parent().Pkg.Pkg
	}
	return nil
}

// ---- index arithmetic helpers (mode dependent)

func (w *World) idxSortName() string {
	if w.BV {
		return "(_ BitVec 64)"
	}
	return "Int"
}
func (w *World) goInt() *Sort { return w.intSort(64, true, types.Typ[types.Int]) }
func (w *World) ilit(n int64) string {
	return w.intLit64(n, w.goInt()).S
}
func (w *World) iadd(a, b string) string {
	if w.BV {
		return "(bvadd " + a + " " + b + ")"
	}
	return "(+ " + a + " " + b + ")"
}
// sidx: element address off+i. In int mode it is wrapped in a function symbol
// (defined by an axiom in the prelude) so that quantifier patterns over slice
// elements survive the solver's arithmetic normalisation.
func (w *World) sidx(off, i string) string {
	if w.BV {
		return "(bvadd " + off + " " + i + ")"
	}
	return "(sidx " + off + " " + i + ")"
}
func (w *World) isub(a, b string) string {
	if w.BV {
		return "(bvsub " + a + " " + b + ")"
	}
	return "(- " + a + " " + b + ")"
}
func (w *World) ile(a, b string) string {
	if w.BV {
		return "(bvsle " + a + " " + b + ")"
	}
	return "(<= " + a + " " + b + ")"
}
func (w *World) ilt(a, b string) string {
	if w.BV {
		return "(bvslt " + a + " " + b + ")"
	}
	return "(< " + a + " " + b + ")"
}

// toIdx converts an integer term of any width to the index sort.
func (w *World) toIdx(t Term) string {
	if t.Sort.Kind == KUntypedInt {
		v, _ := new(big.Int).SetString(t.S, 10)
		return w.intLit(v, w.goInt()).S
	}
	if !w.BV || t.Sort.Kind != KInt || t.Sort.Bits == 64 {
		return t.S
	}
	if t.Sort.Signed {
		return fmt.Sprintf("((_ sign_extend %d) %s)", 64-t.Sort.Bits, t.S)
	}
	return fmt.Sprintf("((_ zero_extend %d) %s)", 64-t.Sort.Bits, t.S)
}

// ---- entry point

type FuncResult struct {
	Func        string
	Obls        []*Obligation
	World       *World
	Err         string // outside subset
	Unsupported []string
	Notes       []string
}

func verifyFunction(p *Program, fn *ssa.Function, c *Contract) *FuncResult {
	res := &FuncResult{Func: fn.String()}
	var universe map[string]bool
	for pass := 1; pass <= 2; pass++ {
		w := newWorld(p, c != nil && c.Mode == "bv")
		w.predeclareSpecTypes()
		ft := &funcTrans{w: w, p: p, fn: fn, c: c, pass: pass, universe: universe}
		err := ft.run()
		if err != nil {
			res.Err = err.Error()
			res.World = w
			return res
		}
		if pass == 1 {
			universe = map[string]bool{}
			for h := range w.heapSorts {
				universe[h] = true
			}
			continue
		}
		res.Obls = ft.obls
		res.World = w
		res.Unsupported = w.unsupported
		res.Notes = ft.notes
	}
	return res
}

func (ft *funcTrans) run() (err error) {
	defer func() {
		if r := recover(); r != nil {
			if ue, ok := r.(unsupportedErr); ok {
				err = fmt.Errorf("%s", string(ue))
				return
			}
			panic(r)
		}
	}()
	w := ft.w
	fn := ft.fn
	ft.vals = map[ssa.Value]*Val{}
	ft.reach = map[*ssa.BasicBlock]string{}
	ft.edges = map[[2]int]string{}
	ft.out = map[*ssa.BasicBlock]*State{}
	ft.loops = map[*ssa.BasicBlock]*loopInfo{}
	ft.env = map[string]Term{}
	if len(fn.Blocks) == 0 {
		return fmt.Errorf("function has no body")
	}
	// pre-declare heap sorts of the universe so that "havoc everything" covers them; the ghost heaps of
	// the spec are always part of it (a callee without an assigns clause may change them)
	for name, srt := range w.P.Spec.Ghosts {
		w.heapSorts["G_ghost."+name] = srt
	}
	w.declConstRaw("alloc@0", "Int")
	ft.entry = &State{heaps: map[string]string{}, locals: map[string]string{}, alloc: q("alloc@0")}
	w.addFact("(>= " + ft.entry.alloc + " 0)")
	// parameters
	for i, prm := range fn.Params {
		s := w.sortOf(prm.Type())
		t := w.declConst("p_"+prm.Name(), s)
		ft.vals[prm] = &Val{T: t}
		ft.env[prm.Name()] = t
		ft.env[prm.Name()+"0"] = t // entry value (the name itself may be shadowed by a loop phi)
		ft.env[fmt.Sprintf("arg%d", i)] = t
		ft.assumeWellTyped(t, ft.entry, "true")
	}
	ft.envCells = map[string]*Loc{}
	for _, fv := range fn.FreeVars {
		s := w.sortOf(fv.Type())
		t := w.declConst("fv_"+fv.Name(), s)
		ft.vals[fv] = &Val{T: t}
		ft.assumeWellTyped(t, ft.entry, "true")
		w.addFact(fmt.Sprintf("(not (= %s 0))", t.S))
		// a captured variable: the free variable is the address of its cell; the
		// source-level name denotes the cell's content in the state at hand
		if pt, ok := fv.Type().Underlying().(*types.Pointer); ok {
			loc := ft.locOfRef(t.S, pt.Elem())
			ft.envCells[fv.Name()] = loc
			ft.env["&"+fv.Name()] = t
			ft.env[fv.Name()+"0"] = ft.readLoc(ft.entry, loc) // value of the captured variable when the closure starts
			// captured variables are distinct cells
			for _, other := range fn.FreeVars {
				if other == fv {
					break
				}
				if ov, ok := ft.vals[other]; ok && ov.T.Sort.Kind == KRef {
					w.addFact(fmt.Sprintf("(not (= %s %s))", t.S, ov.T.S))
				}
			}
		} else {
			ft.env[fv.Name()] = t
		}
	}
	if ft.universe != nil {
		// re-create heap sort table entries lazily; nothing to do: names get declared on use
	}
	// requires
	if ft.c != nil {
		for _, r := range ft.c.Requires {
			ec := ft.ctx(ft.entry, nil)
			t := ec.evalBool(r.E)
			w.addFact(t.S)
		}
	}
	if ft.c != nil {
		o := ft.obligation("cover", "requires-sat", "preconditions and type invariants are satisfiable", "true")
		o.Cover = true
		w.popFact()
	}
	ft.findLoops()
	order := ft.rpo()
	for _, b := range order {
		ft.block(b)
	}
	if ft.c != nil {
		for i := range ft.c.RetReqs {
			if ft.retreqOK[i] == 0 {
				panic(unsupportedErr(fmt.Sprintf("retreq%d could not be evaluated at any return site (%s)", i+1, ft.retreqErr[i])))
			}
		}
		for _, li := range ft.loopList {
			if li.lc == nil {
				continue
			}
			for k := range li.lc.IterPost {
				if !ft.iterpostOK[fmt.Sprintf("%d.%d", li.ordinal, k+1)] {
					panic(unsupportedErr(fmt.Sprintf("loop%d.iterpost%d could not be evaluated at any back edge", li.ordinal, k+1)))
				}
			}
		}
	}
	return nil
}

func (ft *funcTrans) ctx(st, old *State) *evalCtx {
	return &evalCtx{w: ft.w, pkg: ft.pkgTypes(), env: ft.env, st: st, old: old, lets: ft.lets(), cells: ft.envCells, ft: ft}
}

// assumeWellTyped adds the type invariants of a value: unsigned ranges,
// allocatedness of references, slice shape.
func (ft *funcTrans) assumeWellTyped(t Term, st *State, guard string) {
	w := ft.w
	var f string
	switch t.Sort.Kind {
	case KInt:
		if w.BV {
			return
		}
		if t.Sort.Signed {
			if t.Sort.Go != nil && isNamed(t.Sort.Go, "time", "Time") {
				return
			}
			lo := new(big.Int).Neg(new(big.Int).Lsh(big.NewInt(1), uint(t.Sort.Bits-1)))
			hi := new(big.Int).Sub(new(big.Int).Lsh(big.NewInt(1), uint(t.Sort.Bits-1)), big.NewInt(1))
			f = fmt.Sprintf("(and (<= (- %s) %s) (<= %s %s))", new(big.Int).Neg(lo).String(), t.S, t.S, hi.String())
		} else {
			hi := new(big.Int).Sub(new(big.Int).Lsh(big.NewInt(1), uint(t.Sort.Bits)), big.NewInt(1))
			f = fmt.Sprintf("(and (<= 0 %s) (<= %s %s))", t.S, t.S, hi.String())
		}
	case KRef, KMap, KChan:
		f = fmt.Sprintf("(and (<= 0 %s) (<= %s %s))", t.S, t.S, st.alloc)
	case KSlice:
		z := w.ilit(0)
		f = fmt.Sprintf("(and (<= 0 (s-arr %s)) (<= (s-arr %s) %s) %s %s %s (=> (= (s-arr %s) 0) (= (s-cap %s) %s)))",
			t.S, t.S, st.alloc,
			w.ile(z, "(s-off "+t.S+")"), w.ile(z, "(s-len "+t.S+")"), w.ile("(s-len "+t.S+")", "(s-cap "+t.S+")"),
			t.S, t.S, z)
	case KIface:
		f = fmt.Sprintf("(and (<= 0 (i-dyn %s)) (=> (= (i-dyn %s) 0) (= (i-val %s) 0)))", t.S, t.S, t.S)
	case KStruct:
		for _, fi := range w.fieldsOf(t.Sort) {
			ft.assumeWellTyped(Term{fmt.Sprintf("(%s %s)", q(fi.Acc), t.S), fi.Sort}, st, guard)
		}
		for _, inv := range w.P.Spec.StructInv[t.Sort.Name] {
			f := strings.ReplaceAll(inv, "$v", t.S)
			if guard == "true" {
				w.addFact(f)
			} else {
				w.addFact(fmt.Sprintf("(=> %s %s)", guard, f))
			}
		}
		return
	default:
		return
	}
	if guard == "true" {
		w.addFact(f)
	} else {
		w.addFact(fmt.Sprintf("(=> %s %s)", guard, f))
	}
}

// ---- CFG helpers

func (ft *funcTrans) isBackEdge(from, to *ssa.BasicBlock) bool {
	return to.Dominates(from)
}

func (ft *funcTrans) findLoops() {
	fn := ft.fn
	for _, b := range fn.Blocks {
		for _, s := range b.Succs {
			if ft.isBackEdge(b, s) {
				li := ft.loops[s]
				if li == nil {
					li = &loopInfo{header: s, body: map[*ssa.BasicBlock]bool{s: true}, modHeaps: map[string]bool{}, modLoc: map[string]bool{}}
					ft.loops[s] = li
				}
				li.backs = append(li.backs, b)
				// natural loop
				stack := []*ssa.BasicBlock{b}
				for len(stack) > 0 {
					x := stack[len(stack)-1]
					stack = stack[:len(stack)-1]
					if li.body[x] {
						continue
					}
					li.body[x] = true
					stack = append(stack, x.Preds...)
				}
			}
		}
	}
	for _, li := range ft.loops {
		li.pos = token.NoPos
		for _, b := range fn.Blocks {
			if !li.body[b] {
				continue
			}
			for _, in := range b.Instrs {
				if p := in.Pos(); p.IsValid() && (li.pos == token.NoPos || p < li.pos) {
					li.pos = p
				}
			}
		}
		ft.loopList = append(ft.loopList, li)
	}
	sort.Slice(ft.loopList, func(i, j int) bool {
		a, b := ft.loopList[i], ft.loopList[j]
		if a.pos != b.pos {
			return a.pos < b.pos
		}
		return a.header.Index < b.header.Index
	})
	for i, li := range ft.loopList {
		li.ordinal = i + 1
		if ft.c != nil {
			li.lc = ft.c.Loops[li.ordinal]
		}
	}
}

func (ft *funcTrans) rpo() []*ssa.BasicBlock {
	fn := ft.fn
	seen := map[*ssa.BasicBlock]bool{}
	var post []*ssa.BasicBlock
	var dfs func(b *ssa.BasicBlock)
	dfs = func(b *ssa.BasicBlock) {
		seen[b] = true
		for _, s := range b.Succs {
			if !seen[s] && !ft.isBackEdge(b, s) {
				dfs(s)
			}
		}
		post = append(post, b)
	}
	dfs(fn.Blocks[0])
	if fn.Recover != nil && !seen[fn.Recover] {
		// recover block is ignored (panics end paths)
	}
	for i, j := 0, len(post)-1; i < j; i, j = i+1, j-1 {
		post[i], post[j] = post[j], post[i]
	}
	return post
}

func (ft *funcTrans) obligation(kind, name, clause, goal string) *Obligation {
	w := ft.w
	r := "true"
	if ft.cur != nil {
		r = ft.reach[ft.cur]
	}
	o := &Obligation{Name: ft.fn.String() + "#" + name, Func: ft.fn.String(), Kind: kind, Clause: clause, NFacts: len(w.facts), Goal: goal, Reach: r, W: w}
	if ft.cur != nil {
		o.Anc = ft.ancestors(ft.cur)
	}
	ft.obls = append(ft.obls, o)
	// later obligations may assume earlier ones
	saveTag := w.curTag
	w.curTag = "obl"
	w.addFact(fmt.Sprintf("(=> %s %s)", r, goal))
	w.curTag = saveTag
	return o
}

func (ft *funcTrans) assume(f string) {
	r := ft.reach[ft.cur]
	if r == "true" {
		ft.w.addFact(f)
	} else {
		ft.w.addFact(fmt.Sprintf("(=> %s %s)", r, f))
	}
}

// ---- state helpers

func (ft *funcTrans) newHeapVersion(st *State, heap string) string {
	w := ft.w
	srt := w.heapSorts[heap]
	if srt == "" {
		panic("heap sort unknown: " + heap)
	}
	sym := w.declConstRaw(w.fresh(heap), srt)
	st.heaps[heap] = sym
	return sym
}

func (ft *funcTrans) allHeaps() []string {
	m := map[string]bool{}
	for h := range ft.universe {
		m[h] = true
	}
	for h := range ft.w.heapSorts {
		m[h] = true
	}
	return sortedKeys(m)
}

func (ft *funcTrans) havocAll(st *State) {
	w := ft.w
	for _, h := range ft.allHeaps() {
		if _, ok := w.heapSorts[h]; !ok {
			continue // pass 2 declares lazily: universe heaps get their sort on first use
		}
		ft.newHeapVersion(st, h)
	}
	ft.bumpAlloc(st)
}

// preservedHeap: is heap h kept by a callee whose contract says "preserves pkg.T"?
// Field heaps of the listed struct types and ghost heaps not named in an
// assigns clause are kept.
func preservedHeap(h string, pres []string) bool {
	for _, p := range pres {
		if strings.HasPrefix(h, "H_"+strings.ReplaceAll(p, ".", "_")+".") {
			return true
		}
		// elements of slices/arrays of that struct type
		if h == "E_S_"+strings.ReplaceAll(p, ".", "_") {
			return true
		}
	}
	return strings.HasPrefix(h, "G_ghost.")
}

func (ft *funcTrans) havocAllExcept(st *State, pres []string) {
	w := ft.w
	for _, h := range ft.allHeaps() {
		if _, ok := w.heapSorts[h]; !ok || preservedHeap(h, pres) {
			continue
		}
		ft.newHeapVersion(st, h)
	}
	ft.bumpAlloc(st)
}

func (ft *funcTrans) bumpAlloc(st *State) {
	w := ft.w
	na := w.declConstRaw(w.fresh("alloc"), "Int")
	w.addFact(fmt.Sprintf("(>= %s %s)", na, st.alloc))
	st.alloc = na
}

func (ft *funcTrans) freshRef(st *State) string {
	w := ft.w
	r := w.declConstRaw(w.fresh("ref"), "Int")
	w.addFact(fmt.Sprintf("(= %s (+ %s 1))", r, st.alloc))
	st.alloc = r
	return r
}

// mergeStates computes the in-state of b from predecessor states over the given edges.
func (ft *funcTrans) mergeStates(preds []*ssa.BasicBlock, b *ssa.BasicBlock) *State {
	w := ft.w
	var sts []*State
	var conds []string
	for _, p := range preds {
		st := ft.out[p]
		if st == nil {
			continue
		}
		sts = append(sts, st)
		conds = append(conds, ft.edges[[2]int{p.Index, b.Index}])
	}
	if len(sts) == 0 {
		return ft.entry.clone()
	}
	if len(sts) == 1 {
		return sts[0].clone()
	}
	res := &State{heaps: map[string]string{}, locals: map[string]string{}}
	names := map[string]bool{}
	for _, s := range sts {
		for h := range s.heaps {
			names[h] = true
		}
	}
	for _, h := range sortedKeys(names) {
		same := true
		first := w.heapSym(sts[0], h)
		for _, s := range sts[1:] {
			if w.heapSym(s, h) != first {
				same = false
			}
		}
		if same {
			res.heaps[h] = first
			continue
		}
		sym := w.declConstRaw(w.fresh(h), w.heapSorts[h])
		for i, s := range sts {
			w.addFact(fmt.Sprintf("(=> %s (= %s %s))", conds[i], sym, w.heapSym(s, h)))
		}
		res.heaps[h] = sym
	}
	lnames := map[string]bool{}
	for _, s := range sts {
		for l := range s.locals {
			lnames[l] = true
		}
	}
	for _, l := range sortedKeys(lnames) {
		same := true
		first, ok0 := sts[0].locals[l]
		for _, s := range sts[1:] {
			if v, ok := s.locals[l]; !ok || !ok0 || v != first {
				same = false
			}
		}
		if same {
			res.locals[l] = first
			continue
		}
		// only merge when defined on all paths
		all := true
		for _, s := range sts {
			if _, ok := s.locals[l]; !ok {
				all = false
			}
		}
		if !all {
			continue
		}
		srt := ft.localSorts[l]
		sym := w.declConstRaw(w.fresh("L_"+l), srt.Name)
		for i, s := range sts {
			w.addFact(fmt.Sprintf("(=> %s (= %s %s))", conds[i], sym, s.locals[l]))
		}
		res.locals[l] = sym
	}
	same := true
	for _, s := range sts[1:] {
		if s.alloc != sts[0].alloc {
			same = false
		}
	}
	if same {
		res.alloc = sts[0].alloc
	} else {
		sym := w.declConstRaw(w.fresh("alloc"), "Int")
		for i, s := range sts {
			w.addFact(fmt.Sprintf("(=> %s (= %s %s))", conds[i], sym, s.alloc))
		}
		res.alloc = sym
	}
	return res
}

func (ft *funcTrans) lets() map[string]Expr {
	if ft.c == nil {
		return nil
	}
	return ft.c.Lets
}

// ancestors: blocks from which b is reachable along forward (non-back) edges, plus b.
func (ft *funcTrans) ancestors(b *ssa.BasicBlock) map[int]bool {
	if ft.ancMemo == nil {
		ft.ancMemo = map[*ssa.BasicBlock]map[int]bool{}
	}
	if m, ok := ft.ancMemo[b]; ok {
		return m
	}
	m := map[int]bool{b.Index: true}
	ft.ancMemo[b] = m
	for _, p := range b.Preds {
		if ft.isBackEdge(p, b) {
			continue
		}
		for k := range ft.ancestors(p) {
			m[k] = true
		}
	}
	return m
}
