package main

// Modelling of fmt.Sprintf / fmt.Errorf with a constant format string:
// the result is the concatenation of the literal text and, per verb, a term
// for the formatted argument. Supported: %s and %v of string-kinded values
// without String()/Error() methods, %d and %v of integers (itoa),
// %0Nd (fmt_pad0(itoa, N)), %t. Anything else leaves the result unconstrained.
// This is a trusted model of package fmt, listed in the evidence.

import (
	"fmt"
	"go/constant"
	"go/types"
	"strconv"
	"strings"

	"golang.org/x/tools/go/ssa"
)

type fmtSeg struct {
	lit   string
	verb  byte
	width int
	zero  bool
	arg   int
}

func parseFormat(f string) ([]fmtSeg, bool) {
	var segs []fmtSeg
	arg := 0
	i := 0
	var lit strings.Builder
	for i < len(f) {
		c := f[i]
		if c != '%' {
			lit.WriteByte(c)
			i++
			continue
		}
		if i+1 < len(f) && f[i+1] == '%' {
			lit.WriteByte('%')
			i += 2
			continue
		}
		if lit.Len() > 0 {
			segs = append(segs, fmtSeg{lit: lit.String()})
			lit.Reset()
		}
		i++
		seg := fmtSeg{arg: arg}
		if i < len(f) && f[i] == '0' {
			seg.zero = true
			i++
		}
		j := i
		for j < len(f) && f[j] >= '0' && f[j] <= '9' {
			j++
		}
		if j > i {
			seg.width, _ = strconv.Atoi(f[i:j])
			i = j
		}
		if i >= len(f) {
			return nil, false
		}
		if f[i] == '.' || f[i] == '+' || f[i] == '-' || f[i] == '#' || f[i] == ' ' || f[i] == '*' || f[i] == '[' {
			return nil, false
		}
		seg.verb = f[i]
		i++
		arg++
		segs = append(segs, seg)
	}
	if lit.Len() > 0 {
		segs = append(segs, fmtSeg{lit: lit.String()})
	}
	return segs, true
}

// varargValues recovers the values stored into the variadic []any argument.
func varargValues(v ssa.Value) ([]ssa.Value, bool) {
	if c, ok := v.(*ssa.Const); ok && c.Value == nil {
		return nil, true
	}
	sl, ok := v.(*ssa.Slice)
	if !ok {
		return nil, false
	}
	al, ok := sl.X.(*ssa.Alloc)
	if !ok {
		return nil, false
	}
	at, ok := al.Type().(*types.Pointer).Elem().Underlying().(*types.Array)
	if !ok {
		return nil, false
	}
	vals := make([]ssa.Value, at.Len())
	for _, ref := range *al.Referrers() {
		ia, ok := ref.(*ssa.IndexAddr)
		if !ok {
			continue
		}
		k, ok := ia.Index.(*ssa.Const)
		if !ok {
			return nil, false
		}
		idx, _ := constant.Int64Val(k.Value)
		for _, r2 := range *ia.Referrers() {
			if st, ok := r2.(*ssa.Store); ok && st.Addr == ia {
				if mi, ok := st.Val.(*ssa.MakeInterface); ok {
					vals[idx] = mi.X
				} else {
					return nil, false
				}
			}
		}
	}
	for _, x := range vals {
		if x == nil {
			return nil, false
		}
	}
	return vals, true
}

func hasStringer(t types.Type) bool {
	for _, tt := range []types.Type{t, types.NewPointer(t)} {
		ms := types.NewMethodSet(tt)
		for i := 0; i < ms.Len(); i++ {
			n := ms.At(i).Obj().Name()
			if n == "String" || n == "Error" || n == "Format" || n == "GoString" {
				return true
			}
		}
	}
	return false
}

func hasFormatter(t types.Type) bool {
	for _, tt := range []types.Type{t, types.NewPointer(t)} {
		ms := types.NewMethodSet(tt)
		for i := 0; i < ms.Len(); i++ {
			if ms.At(i).Obj().Name() == "Format" {
				return true
			}
		}
	}
	return false
}

// itoa term for an integer value in the current mode.
func (w *World) itoa(t Term) string {
	if w.BV {
		name := fmt.Sprintf("itoa_bv%d", t.Sort.Bits)
		if t.Sort.Bits == 64 {
			name = "itoa"
		}
		w.declFunIfMissing(name, []string{t.Sort.Name}, "String")
		return fmt.Sprintf("(%s %s)", name, t.S)
	}
	return fmt.Sprintf("(itoa %s)", t.S)
}

func (w *World) declFunIfMissing(name string, args []string, ret string) {
	if _, ok := w.P.Spec.Fns[name]; ok {
		return
	}
	w.declFun(name, args, ret)
}

// sprintfTerm returns the SMT string term for Sprintf(format, args...) or "" if unsupported.
func (ft *funcTrans) sprintfTerm(com *ssa.CallCommon) string {
	w := ft.w
	if len(com.Args) < 1 {
		return ""
	}
	fc, ok := com.Args[0].(*ssa.Const)
	if !ok || fc.Value == nil || fc.Value.Kind() != constant.String {
		return ""
	}
	segs, ok := parseFormat(constant.StringVal(fc.Value))
	if !ok {
		return ""
	}
	var vals []ssa.Value
	if len(com.Args) > 1 {
		vals, ok = varargValues(com.Args[1])
		if !ok {
			return ""
		}
	}
	var parts []string
	for _, sg := range segs {
		if sg.verb == 0 {
			parts = append(parts, strLit(sg.lit))
			continue
		}
		if sg.arg >= len(vals) {
			return ""
		}
		v := vals[sg.arg]
		if hasStringer(v.Type()) && !(sg.verb == 'd' && !hasFormatter(v.Type())) {
			return "" // %d ignores String/Error methods; only a Formatter changes it
		}
		t := ft.termOf(v)
		switch {
		case (sg.verb == 's' || sg.verb == 'v') && t.Sort.Kind == KString && sg.width == 0:
			parts = append(parts, t.S)
		case (sg.verb == 'd' || sg.verb == 'v') && t.Sort.Kind == KInt && !isNamed(v.Type(), "time", "Time"):
			s := w.itoa(t)
			if sg.width > 0 {
				if !sg.zero {
					return ""
				}
				w.declFunIfMissing("fmt_pad0", []string{"String", "Int"}, "String")
				s = fmt.Sprintf("(fmt_pad0 %s %d)", s, sg.width)
			}
			parts = append(parts, s)
		case sg.verb == 'f' && t.Sort.Kind == KReal && sg.width == 0:
			// %f: six digits after the point; the text is an uninterpreted function of the value
			w.declFunIfMissing("ftoa6", []string{"Real"}, "String")
			parts = append(parts, fmt.Sprintf("(ftoa6 %s)", t.S))
		case (sg.verb == 't' || sg.verb == 'v') && t.Sort.Kind == KBool:
			parts = append(parts, fmt.Sprintf("(ite %s \"true\" \"false\")", t.S))
		default:
			return ""
		}
	}
	switch len(parts) {
	case 0:
		return "\"\""
	case 1:
		return parts[0]
	}
	return "(str.++ " + strings.Join(parts, " ") + ")"
}
