package main

import (
	"flag"
	"fmt"
	"os"
	"path/filepath"
	"strconv"
	"strings"
)

func usage() {
	fmt.Fprintln(os.Stderr, `usage:
  govc check --property Cxx [--tier quick|thorough] [--repo DIR] [--verif DIR]
  govc dump  --property Cxx --func KEY [--obl NAME]   (print SSA / queries for debugging)
  govc replay PATH`)
	os.Exit(2)
}

func main() {
	if len(os.Args) < 2 {
		usage()
	}
	switch os.Args[1] {
	case "check":
		fs := flag.NewFlagSet("check", flag.ExitOnError)
		prop := fs.String("property", "", "property id")
		tier := fs.String("tier", "", "quick or thorough")
		repo := fs.String("repo", "/repo", "repository directory")
		verif := fs.String("verif", defaultVerifDir(), "verif directory")
		only := fs.String("only", "", "substring filter on function keys (debugging)")
		keep := fs.String("keep", "", "keep VC files in this directory")
		noEvidence := fs.Bool("no-evidence", false, "do not write the evidence file (used by selftest)")
		fs.Parse(os.Args[2:])
		if *prop == "" {
			usage()
		}
		if *tier == "" {
			*tier = os.Getenv("VERIF_TIER")
			if *tier == "" {
				*tier = "quick"
			}
		}
		seed := 0
		if s := os.Getenv("VERIF_SEED"); s != "" {
			if v, err := strconv.Atoi(s); err == nil {
				seed = v
			}
		}
		opts := &CheckOpts{Prop: *prop, Tier: *tier, Repo: *repo, Verif: *verif, Seed: seed, Only: *only, Keep: *keep, NoEvidence: *noEvidence}
		os.Exit(runCheck(opts))
	case "dump":
		fs := flag.NewFlagSet("dump", flag.ExitOnError)
		prop := fs.String("property", "", "property id")
		fn := fs.String("func", "", "function key substring")
		obl := fs.String("obl", "", "obligation name substring: print its query")
		repo := fs.String("repo", "/repo", "repository directory")
		verif := fs.String("verif", defaultVerifDir(), "verif directory")
		fs.Parse(os.Args[2:])
		os.Exit(runDump(*prop, *fn, *obl, *repo, *verif))
	case "oracle":
		// exploratory: run the executable oracles of a property against the real code
		fs := flag.NewFlagSet("oracle", flag.ExitOnError)
		prop := fs.String("property", "", "property id")
		repo := fs.String("repo", "/repo", "repository directory")
		verif := fs.String("verif", defaultVerifDir(), "verif directory")
		budget := fs.Int("seconds", 10, "search budget")
		only := fs.String("only", "", "oracle name substring")
		fs.Parse(os.Args[2:])
		os.Exit(runOracleCmd(*prop, *repo, *verif, *budget, *only))
	case "replay":
		if len(os.Args) < 3 {
			usage()
		}
		os.Exit(runReplay(os.Args[2]))
	default:
		usage()
	}
}

func defaultVerifDir() string {
	if d := os.Getenv("VERIF_DIR"); d != "" {
		return d
	}
	exe, err := os.Executable()
	if err == nil {
		d := filepath.Dir(filepath.Dir(exe))
		if _, err := os.Stat(filepath.Join(d, "spec")); err == nil {
			return d
		}
	}
	wd, _ := os.Getwd()
	if strings.HasSuffix(wd, "/verif") {
		return wd
	}
	return "/verif"
}
