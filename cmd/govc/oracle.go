package main

// Counterexample search on the real code for obligations whose solver answer
// carries no usable model (unknown/timeout with quantifiers, or inputs that
// are heap structures).
//
// An "oracle" is a Go function in a lemma file, tagged `//@ oracle` in its
// contract block, that transcribes (part of) a property statement as
// executable checks with vAssert/vAssume. Oracles are NOT verified and never
// count as obligations. When an obligation of a function listed in the
// oracle's `covers` clause fails, the oracle is run against the real code on
// generated inputs (reflection-based, small structures, seeded by VERIF_SEED);
// a failing vAssert is a concrete failing input and confirms the violation on
// the real code. If no input fails within the budget the violation is still
// reported, with "no-failing-input-found".

import (
	"fmt"
	"os"
	"path/filepath"
	"go/types"
	"sort"
	"strings"

	"golang.org/x/tools/go/ssa"
)

type oracleHit struct {
	Oracle string
	Where  string
	Input  string
	Iter   string
	Output string
}

func (p *Program) oraclesFor(prop string, fnKey string) []*ssa.Function {
	var out []*ssa.Function
	for key, c := range p.Contracts {
		if !c.Oracle {
			continue
		}
		has := false
		for _, pr := range c.Props {
			if pr == prop {
				has = true
			}
		}
		if !has {
			continue
		}
		match := len(c.Covers) == 0 || fnKey == "*"
		for _, cv := range c.Covers {
			if strings.Contains(fnKey, cv) {
				match = true
			}
		}
		if !match {
			continue
		}
		if fn := p.Funcs[key]; fn != nil {
			out = append(out, fn)
		}
	}
	return out
}

const oracleSupport = `
var govcFailed string
var govcTrace = os.Getenv("GOVC_TRACE") != ""

type govcDiscard struct{}

func govcRun(f func()) (panicked interface{}) {
	defer func() {
		if r := recover(); r != nil {
			if _, ok := r.(govcDiscard); ok {
				govcFailed = "discard"
				return
			}
			panicked = r
		}
	}()
	f()
	return nil
}

var govcBase = time.Date(2015, 1, 1, 0, 0, 0, 0, time.UTC)

func govcFill(v reflect.Value, rnd *rand.Rand, depth int) {
	if !v.CanSet() {
		return
	}
	if v.Type() == reflect.TypeOf(time.Time{}) {
		tv := govcBase.Add(time.Duration(rnd.Intn(6)) * time.Hour)
		switch rnd.Intn(4) {
		case 0:
			tv = tv.In(time.FixedZone("plus1", 3600)) // same instant, different representation
		case 1:
			tv = time.Unix(tv.Unix(), 0)
		}
		v.Set(reflect.ValueOf(tv))
		return
	}
	switch v.Kind() {
	case reflect.Bool:
		v.SetBool(rnd.Intn(2) == 0)
	case reflect.Int, reflect.Int8, reflect.Int16, reflect.Int32, reflect.Int64:
		pool := []int64{0, 1, 2, 3, 1, 2, 0, 4, -1}
		if v.Kind() == reflect.Int8 {
			pool = []int64{0, 1, -1}
		}
		if depth == 0 && v.Kind() != reflect.Int8 && rnd.Intn(2) == 0 {
			// top-level parameters are usually selectors: spread them
			v.SetInt(rnd.Int63n(4000) - 1000)
		} else {
			v.SetInt(pool[rnd.Intn(len(pool))])
		}
	case reflect.Uint, reflect.Uint8, reflect.Uint16, reflect.Uint32, reflect.Uint64:
		v.SetUint(uint64(rnd.Intn(5)))
	case reflect.Float32, reflect.Float64:
		v.SetFloat(float64(rnd.Intn(7)))
	case reflect.String:
		pool := []string{"", "a", "b", "c", "node", "way", "relation", "yes", "no"}
		v.SetString(pool[rnd.Intn(len(pool))])
	case reflect.Ptr:
		if depth > 8 || (depth > 0 && rnd.Intn(6) == 0) {
			return
		}
		p := reflect.New(v.Type().Elem())
		govcFill(p.Elem(), rnd, depth+1)
		v.Set(p)
	case reflect.Slice:
		if depth > 8 {
			return
		}
		n := rnd.Intn(5)
		if n == 4 {
			n = 2
		}
		if depth > 5 && n > 1 {
			n = 1
		}
		s := reflect.MakeSlice(v.Type(), n, n+rnd.Intn(2))
		for i := 0; i < n; i++ {
			govcFill(s.Index(i), rnd, depth+1)
		}
		v.Set(s)
	case reflect.Array:
		for i := 0; i < v.Len(); i++ {
			govcFill(v.Index(i), rnd, depth+1)
		}
	case reflect.Struct:
		for i := 0; i < v.NumField(); i++ {
			govcFill(v.Field(i), rnd, depth+1)
		}
	case reflect.Map:
		if depth > 3 {
			return
		}
		m := reflect.MakeMap(v.Type())
		for i, n := 0, rnd.Intn(3); i < n; i++ {
			k := reflect.New(v.Type().Key()).Elem()
			e := reflect.New(v.Type().Elem()).Elem()
			govcFill(k, rnd, depth+1)
			govcFill(e, rnd, depth+1)
			m.SetMapIndex(k, e)
		}
		v.Set(m)
	}
}

func govcDump(v reflect.Value, depth int) string {
	if depth > 8 {
		return "..."
	}
	if v.IsValid() && v.Type() == reflect.TypeOf(time.Time{}) {
		t := v.Interface().(time.Time)
		if t.IsZero() {
			return "time.Time{}"
		}
		return fmt.Sprintf("base+%v", t.Sub(govcBase))
	}
	switch v.Kind() {
	case reflect.Ptr:
		if v.IsNil() {
			return "nil"
		}
		return "&" + govcDump(v.Elem(), depth+1)
	case reflect.Slice:
		if v.IsNil() {
			return "nil"
		}
		var parts []string
		for i := 0; i < v.Len(); i++ {
			parts = append(parts, govcDump(v.Index(i), depth+1))
		}
		return "[" + strings.Join(parts, ", ") + "]"
	case reflect.Array:
		var parts []string
		for i := 0; i < v.Len(); i++ {
			parts = append(parts, govcDump(v.Index(i), depth+1))
		}
		return "[" + strings.Join(parts, ", ") + "]"
	case reflect.Struct:
		var parts []string
		for i := 0; i < v.NumField(); i++ {
			f := v.Field(i)
			if f.IsZero() {
				continue
			}
			parts = append(parts, v.Type().Field(i).Name+":"+govcDump(f, depth+1))
		}
		return v.Type().Name() + "{" + strings.Join(parts, " ") + "}"
	case reflect.String:
		return fmt.Sprintf("%q", v.String())
	case reflect.Map:
		if v.IsNil() {
			return "nil"
		}
		var parts []string
		for _, k := range v.MapKeys() {
			parts = append(parts, govcDump(k, depth+1)+":"+govcDump(v.MapIndex(k), depth+1))
		}
		sort.Strings(parts)
		return "map{" + strings.Join(parts, " ") + "}"
	case reflect.Interface:
		if v.IsNil() {
			return "nil"
		}
		return govcDump(v.Elem(), depth+1)
	case reflect.Invalid:
		return "<invalid>"
	}
	if v.CanInterface() {
		return fmt.Sprintf("%v", v.Interface())
	}
	return fmt.Sprintf("%v", v)
}
`

const oracleMarkers = `//go:build verif

package %s

import (
	"fmt"
	"runtime"
	"strings"
)

func vAssert(b bool) {
	if !b && govcFailed == "" {
		_, file, line, _ := runtime.Caller(1)
		if i := strings.LastIndex(file, "/"); i >= 0 {
			file = file[i+1:]
		}
		govcFailed = fmt.Sprintf("%%s:%%d", file, line)
	}
}
func vAssume(b bool) {
	if !b {
		panic(govcDiscard{})
	}
}
func vCover(b bool) {}
`

// runOracles searches for a failing input of the given oracles: one test process per package the
// oracles live in (in a fixed order), the first failing input wins.
func runOracles(o *CheckOpts, prog *Program, oracles []*ssa.Function, budgetS int) (*oracleHit, string) {
	if len(oracles) == 0 {
		return nil, "no oracle covers this obligation"
	}
	byPkg := map[string][]*ssa.Function{}
	var paths []string
	for _, fn := range oracles {
		pp := fn.Pkg.Pkg.Path()
		if _, ok := byPkg[pp]; !ok {
			paths = append(paths, pp)
		}
		byPkg[pp] = append(byPkg[pp], fn)
	}
	sort.Strings(paths)
	var whys []string
	for _, pp := range paths {
		group := byPkg[pp]
		sort.Slice(group, func(i, j int) bool { return group[i].Name() < group[j].Name() })
		hit, why := runOraclesPkg(o, prog, group, budgetS)
		if hit != nil {
			return hit, why
		}
		whys = append(whys, why)
	}
	return nil, strings.Join(whys, "; ")
}

// runOraclesPkg: the oracles of one package.
func runOraclesPkg(o *CheckOpts, prog *Program, oracles []*ssa.Function, budgetS int) (*oracleHit, string) {
	pkg := oracles[0].Pkg.Pkg
	imports := map[string]string{}
	qual := func(p *types.Package) string {
		if p == pkg {
			return ""
		}
		switch p.Path() {
		case "time", "fmt", "sort", "strings", "reflect", "testing":
			return p.Name()
		}
		imports[p.Path()] = p.Name()
		return p.Name()
	}
	// first pass over parameter types to collect imports
	for _, fn := range oracles {
		for _, prm := range fn.Params {
			types.TypeString(prm.Type(), qual)
		}
	}
	var sb strings.Builder
	sb.WriteString(fmt.Sprintf("package %s\n\nimport (\n\t\"fmt\"\n\t\"os\"\n\t\"math/rand\"\n\t\"reflect\"\n\t\"sort\"\n\t\"strings\"\n\t\"testing\"\n\t\"time\"\n", pkg.Name()))
	for path, name := range imports {
		sb.WriteString(fmt.Sprintf("\t%s %q\n", name, path))
	}
	sb.WriteString(")\n\nvar _ = sort.Strings\nvar _ = strings.Join\n")
	sb.WriteString(oracleSupport)
	sb.WriteString("\nfunc TestGovcOracle(t *testing.T) {\n")
	sb.WriteString(fmt.Sprintf("\trnd := rand.New(rand.NewSource(%d))\n", int64(o.Seed)+1))
	sb.WriteString(fmt.Sprintf("\tdeadline := time.Now().Add(%d * time.Second)\n\tcases, discarded := 0, 0\n", budgetS))
	sb.WriteString("\tfor iter := 0; iter < 200000 && time.Now().Before(deadline); iter++ {\n")
	for _, fn := range oracles {
		if fn.Pkg.Pkg != pkg {
			continue
		}
		sb.WriteString("\t\t{\n")
		var args, dumps []string
		for i, prm := range fn.Params {
			tn := types.TypeString(prm.Type(), qual)
			sb.WriteString(fmt.Sprintf("\t\t\tvar a%d %s\n\t\t\tgovcFill(reflect.ValueOf(&a%d).Elem(), rnd, 0)\n", i, tn, i))
			args = append(args, fmt.Sprintf("a%d", i))
			dumps = append(dumps, fmt.Sprintf("\"%s=\" + govcDump(reflect.ValueOf(a%d), 0)", prm.Name(), i))
		}
		if len(dumps) == 0 {
			dumps = []string{"\"\""}
		}
		sb.WriteString("\t\t\tdesc := " + strings.Join(dumps, " + \"; \" + ") + "\n")
		sb.WriteString(fmt.Sprintf("\t\t\tif govcTrace {\n\t\t\t\tfmt.Printf(\"GOVC-TRY oracle=%s iter=%%d\\nGOVC-TRY-INPUT %%s\\n\", iter, desc)\n\t\t\t}\n", fn.Name()))
		sb.WriteString("\t\t\tgovcFailed = \"\"\n")
		sb.WriteString(fmt.Sprintf("\t\t\tpan := govcRun(func() { %s(%s) })\n", fn.Name(), strings.Join(args, ", ")))
		sb.WriteString("\t\t\tcases++\n\t\t\tif govcFailed == \"discard\" {\n\t\t\t\tdiscarded++\n\t\t\t} else if govcFailed != \"\" || pan != nil {\n")
		sb.WriteString(fmt.Sprintf("\t\t\t\tfmt.Printf(\"GOVC-CEX oracle=%s where=%%s panic=%%v iter=%%d\\nGOVC-INPUT %%s\\n\", govcFailed, pan, iter, desc)\n\t\t\t\treturn\n\t\t\t}\n", fn.Name()))
		sb.WriteString("\t\t}\n")
	}
	sb.WriteString("\t}\n\tfmt.Printf(\"GOVC-ORACLE-PASS cases=%d discarded=%d\\n\", cases, discarded)\n}\n")
	rc := &replayCtx{o: o, prog: prog}
	if d := os.Getenv("GOVC_DEBUG_DIR"); d != "" {
		os.WriteFile(filepath.Join(d, "oracle_test.go"), []byte(sb.String()), 0o644)
	}
	out, err := rc.runInPackageTestWithMarkers(pkg, sb.String(), fmt.Sprintf(oracleMarkers, pkg.Name()), "^TestGovcOracle$", budgetS+60)
	if err != nil && !strings.Contains(out, "GOVC-CEX") && (strings.Contains(out, "panic:") || strings.Contains(out, "fatal error:")) {
		// the process crashed (e.g. a panic in a goroutine the oracle cannot recover): rerun with tracing
		// (same seed, same sequence) to identify the input that was being tried
		os.Setenv("GOVC_TRACE", "1")
		out2, _ := rc.runInPackageTestWithMarkers(pkg, sb.String(), fmt.Sprintf(oracleMarkers, pkg.Name()), "^TestGovcOracle$", budgetS+60)
		os.Unsetenv("GOVC_TRACE")
		h := &oracleHit{Where: "process crash"}
		lines := strings.Split(out2, "\n")
		for i, l := range lines {
			if strings.HasPrefix(l, "GOVC-TRY oracle=") {
				f := strings.Fields(strings.TrimPrefix(l, "GOVC-TRY "))
				for _, kv := range f {
					if strings.HasPrefix(kv, "oracle=") {
						h.Oracle = strings.TrimPrefix(kv, "oracle=")
					}
					if strings.HasPrefix(kv, "iter=") {
						h.Iter = strings.TrimPrefix(kv, "iter=")
					}
				}
				if i+1 < len(lines) && strings.HasPrefix(lines[i+1], "GOVC-TRY-INPUT ") {
					h.Input = strings.TrimPrefix(lines[i+1], "GOVC-TRY-INPUT ")
				}
			}
		}
		ci := strings.Index(out, "panic:")
		if ci < 0 {
			ci = strings.Index(out, "fatal error:")
		}
		h.Output = truncate(out[ci:], 2500)
		if h.Oracle != "" {
			return h, ""
		}
		return nil, "oracle run crashed: " + truncate(out, 1500)
	}
	if err != nil && !strings.Contains(out, "GOVC-") {
		return nil, "oracle run failed: " + err.Error() + ": " + truncate(out, 1500)
	}
	for _, line := range strings.Split(out, "\n") {
		if strings.HasPrefix(line, "GOVC-CEX ") {
			h := &oracleHit{Output: truncate(out, 3000)}
			for _, f := range strings.Fields(strings.TrimPrefix(line, "GOVC-CEX ")) {
				kv := strings.SplitN(f, "=", 2)
				if len(kv) != 2 {
					continue
				}
				switch kv[0] {
				case "oracle":
					h.Oracle = kv[1]
				case "where":
					h.Where = kv[1]
				case "iter":
					h.Iter = kv[1]
				}
			}
			for _, l2 := range strings.Split(out, "\n") {
				if strings.HasPrefix(l2, "GOVC-INPUT ") {
					h.Input = strings.TrimPrefix(l2, "GOVC-INPUT ")
				}
			}
			return h, ""
		}
	}
	for _, line := range strings.Split(out, "\n") {
		if strings.HasPrefix(line, "GOVC-ORACLE-PASS") {
			return nil, "oracles held on all generated inputs (" + strings.TrimPrefix(line, "GOVC-ORACLE-PASS ") + ")"
		}
	}
	return nil, "oracle run produced no verdict: " + truncate(out, 1500)
}

func runOracleCmd(prop, repo, verif string, budget int, only string) int {
	pc, err := loadPropConfig(verif, prop)
	if err != nil {
		fmt.Println("ERROR:", err)
		return 2
	}
	spec, err := loadSpecs(verif, pc.Spec)
	if err != nil {
		fmt.Println("ERROR:", err)
		return 2
	}
	prog, err := loadProgram(repo, verif, pc.Pkgs)
	if err != nil {
		fmt.Println("ERROR:", err)
		return 2
	}
	prog.Spec = spec
	seed := 0
	fmt.Sscanf(os.Getenv("VERIF_SEED"), "%d", &seed)
	o := &CheckOpts{Prop: prop, Repo: repo, Verif: verif, Seed: seed}
	rc := 0
	for key, c := range prog.Contracts {
		if !c.Oracle || (only != "" && !strings.Contains(key, only)) {
			continue
		}
		has := false
		for _, p := range c.Props {
			if p == prop {
				has = true
			}
		}
		fn := prog.Funcs[key]
		if !has || fn == nil {
			continue
		}
		hit, why := runOracles(o, prog, []*ssa.Function{fn}, budget)
		if hit != nil {
			fmt.Printf("ORACLE-FAIL %s at %s\n  input: %s\n  input tail: %s\n  %s\n", hit.Oracle, hit.Where, truncate(hit.Input, 1500), tail(hit.Input, 300), truncate(hit.Output, 600))
			rc = 1
		} else {
			fmt.Printf("oracle %s: %s\n", fn.Name(), why)
		}
	}
	return rc
}

func tail(s string, n int) string {
	if len(s) > n {
		return "..." + s[len(s)-n:]
	}
	return s
}
