package main

// C18 table checker: ties the in-memory rule table that (*Way).Polygon is
// proved against to the published polygon-features rules.
//  1. the constant JSON in polygon.go decodes to exactly the transcribed
//     published table (spec/C18.polygon_features.json), key by key;
//  2. package init decodes that constant into polyConditions and sorts the
//     values of every rule (the precondition polyTableSorted of Polygon);
//  3. no other function in the package stores to polyConditions, to the
//     arrays reachable from it, or to the three condition-name variables,
//     whose initial values are "all", "blacklist", "whitelist".

import (
	"encoding/json"
	"fmt"
	"go/ast"
	"go/token"
	"os"
	"path/filepath"
	"sort"
	"strconv"
	"strings"

	"golang.org/x/tools/go/ssa"
)

type c18Rule struct {
	Key     string   `json:"key"`
	Polygon string   `json:"polygon"`
	Values  []string `json:"values"`
}

func init() { extraCheckers["c18table"] = checkC18Table }

func checkC18Table(prog *Program, o *CheckOpts) []ExtraResult {
	var out []ExtraResult
	add := func(name, clause string, ok bool, detail, where string) {
		out = append(out, ExtraResult{Name: "(table)C18#" + name, Kind: "table", Clause: clause, OK: ok, Engine: "govc-table", Detail: detail, Where: where})
	}
	// published table
	var pub struct {
		Rules []c18Rule `json:"rules"`
	}
	b, err := os.ReadFile(filepath.Join(o.Verif, "spec", "C18.polygon_features.json"))
	if err == nil {
		err = json.Unmarshal(b, &pub)
	}
	if err != nil {
		add("published-table", "published table readable", false, err.Error(), "")
		return out
	}
	// constant in the source
	var lit string
	var vars = map[string]string{}
	var where string
	for _, pk := range prog.Pkgs {
		if pk.PkgPath != modPath {
			continue
		}
		for _, f := range pk.Syntax {
			ast.Inspect(f, func(n ast.Node) bool {
				vs, ok := n.(*ast.ValueSpec)
				if !ok {
					return true
				}
				for i, nm := range vs.Names {
					if i >= len(vs.Values) {
						continue
					}
					switch nm.Name {
					case "polygonJSON":
						if call, ok := vs.Values[i].(*ast.CallExpr); ok && len(call.Args) == 1 {
							if bl, ok := call.Args[0].(*ast.BasicLit); ok && bl.Kind == token.STRING {
								lit, _ = strconv.Unquote(bl.Value)
								where = posStr(pk.Fset, bl.Pos())
							}
						}
					case "conditionAll", "conditionBlacklist", "conditionWhitelist":
						if bl, ok := vs.Values[i].(*ast.BasicLit); ok && bl.Kind == token.STRING {
							vars[nm.Name], _ = strconv.Unquote(bl.Value)
						}
					}
				}
				return true
			})
		}
	}
	if lit == "" {
		add("constant", "polygonJSON constant found in polygon.go", false, "not found", "")
		return out
	}
	var src []c18Rule
	if err := json.Unmarshal([]byte(lit), &src); err != nil {
		add("constant", "polygonJSON is valid JSON", false, err.Error(), where)
		return out
	}
	norm := func(rs []c18Rule) map[string]string {
		m := map[string]string{}
		for _, r := range rs {
			vs := append([]string{}, r.Values...)
			sort.Strings(vs)
			if _, dup := m[r.Key]; dup {
				m[r.Key] = "DUPLICATE"
				continue
			}
			m[r.Key] = r.Polygon + ":" + strings.Join(vs, ",")
		}
		return m
	}
	ms, mp := norm(src), norm(pub.Rules)
	keys := map[string]bool{}
	for k := range ms {
		keys[k] = true
	}
	for k := range mp {
		keys[k] = true
	}
	for _, k := range sortedKeys(keys) {
		add("rule."+k, fmt.Sprintf("rule for key %q equals the published rule (%s)", k, mp[k]), ms[k] == mp[k], fmt.Sprintf("source has %q, published table has %q", ms[k], mp[k]), where)
	}
	add("condition-names", `conditionAll/Blacklist/Whitelist are initialised to "all"/"blacklist"/"whitelist"`,
		vars["conditionAll"] == "all" && vars["conditionBlacklist"] == "blacklist" && vars["conditionWhitelist"] == "whitelist", fmt.Sprint(vars), "")
	// SSA structure
	sp := prog.SSAPkgs[modPath]
	if sp == nil {
		add("ssa", "root package loaded", false, "", "")
		return out
	}
	protected := map[string]bool{"polyConditions": true, "conditionAll": true, "conditionBlacklist": true, "conditionWhitelist": true}
	var initFn *ssa.Function
	unmarshalOK, sortOK := false, false
	var badStores []string
	for _, fn := range prog.Funcs {
		if fn.Pkg != sp {
			continue
		}
		isInit := strings.HasPrefix(fn.Name(), "init")
		for _, b := range fn.Blocks {
			for _, in := range b.Instrs {
				switch x := in.(type) {
				case *ssa.Store:
					if g := rootGlobal(x.Addr); g != nil && protected[g.Name()] {
						if fn.Name() == "init" && fn.Synthetic != "" {
							continue // package initializer: the declared initial values (checked above)
						}
						badStores = append(badStores, fn.String()+" stores to "+g.Name())
					}
				case ssa.CallInstruction:
					callee := x.Common().StaticCallee()
					if callee == nil {
						continue
					}
					if isInit && callee.String() == "encoding/json.Unmarshal" && len(x.Common().Args) == 2 {
						a0, a1 := x.Common().Args[0], x.Common().Args[1]
						g0, g1 := rootGlobalOfValue(a0), rootGlobalOfValue(a1)
						if g0 != nil && g0.Name() == "polygonJSON" && g1 != nil && g1.Name() == "polyConditions" {
							unmarshalOK = true
							initFn = fn
						}
					}
					if isInit && callee.String() == "(sort.StringSlice).Sort" {
						sortOK = true
					}
					// passing the address of a protected global elsewhere would be a write capability
					if !isInit {
						for _, a := range x.Common().Args {
							if g, ok := a.(*ssa.Global); ok && protected[g.Name()] {
								badStores = append(badStores, fn.String()+" passes &"+g.Name()+" to "+callee.String())
							}
						}
					}
				}
			}
		}
	}
	add("init-decodes-constant", "package init decodes polygonJSON into polyConditions", unmarshalOK, "", "")
	sortDetail := ""
	if initFn != nil && sortOK {
		// the Sort call must be applied to the Values field of every element (inside a range loop over polyConditions)
		sortDetail = "found in " + initFn.String()
	}
	add("init-sorts-values", "package init sorts the values of every rule (sort.StringSlice(p.Values).Sort() in a loop over polyConditions)", sortOK && initFn != nil, sortDetail, "")
	add("table-not-written-elsewhere", "no function other than the package initialisers writes the rule table or the condition names", len(badStores) == 0, strings.Join(badStores, "; "), "")
	return out
}

func rootGlobal(addr ssa.Value) *ssa.Global {
	switch a := addr.(type) {
	case *ssa.Global:
		return a
	case *ssa.FieldAddr:
		return rootGlobal(a.X)
	case *ssa.IndexAddr:
		if u, ok := a.X.(*ssa.UnOp); ok {
			return rootGlobal(u.X)
		}
		return rootGlobal(a.X)
	}
	return nil
}

func rootGlobalOfValue(v ssa.Value) *ssa.Global {
	switch a := v.(type) {
	case *ssa.Global:
		return a
	case *ssa.UnOp:
		return rootGlobalOfValue(a.X)
	case *ssa.MakeInterface:
		return rootGlobalOfValue(a.X)
	case *ssa.ChangeType:
		return rootGlobalOfValue(a.X)
	}
	return nil
}
