; mode int
; uses-type osm.Update
; C12 -- "Each update list is ordered by child index and, within an index, by
; time and then by child version."
(define-fun updLexLess ((a S_osm_Update) (b S_osm_Update)) Bool
  (or (< (S_osm_Update_f_Index a) (S_osm_Update_f_Index b))
      (and (= (S_osm_Update_f_Index a) (S_osm_Update_f_Index b))
           (or (< (S_osm_Update_f_Timestamp a) (S_osm_Update_f_Timestamp b))
               (and (= (S_osm_Update_f_Timestamp a) (S_osm_Update_f_Timestamp b))
                    (< (S_osm_Update_f_Version a) (S_osm_Update_f_Version b)))))))
(define-fun updSameKey ((a S_osm_Update) (b S_osm_Update)) Bool
  (and (= (S_osm_Update_f_Index a) (S_osm_Update_f_Index b))
       (= (S_osm_Update_f_Timestamp a) (S_osm_Update_f_Timestamp b))
       (= (S_osm_Update_f_Version a) (S_osm_Update_f_Version b))))
