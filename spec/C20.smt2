; mode int
; Ghost HTTP environment of osmapi (C20).
; reqs        : number of requests issued so far (calls of http.Client.Do)
; lastMethod, lastURL : method and URL of the most recent request
; lastStatus  : status code of the most recent response
; waits       : number of completed/attempted rate-limiter waits
; reqMethod[r], reqURL[r] : method and URL a *http.Request was built with
; ghost reqs Int
; ghost lastMethod String
; ghost lastURL String
; ghost lastStatus Int
; ghost waits Int
; ghost reqMethod (Array Int String)
; ghost reqURL (Array Int String)
; text of a float formatted with %f (six digits after the point): trusted, uninterpreted
(declare-fun ftoa6 (Real) String)
; text of a time formatted with a layout in the time's own location; isUTC(t): t was obtained from
; Time.UTC (time zones are not part of the integer model of time.Time; this predicate is only ever
; asserted positively)
(declare-fun timeFormat (Int String) String)
(declare-fun isUTC (Int) Bool)
; url.QueryEscape
(declare-fun queryEscape (String) String)
; strings.Join over the option parameters / the text of an id list: opaque
(declare-fun joinAmp (Slice) String)
