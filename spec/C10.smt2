; mode bv
; C10 -- packed ids. Transcribed from the property statement and the layout
; it names: 16 version bits, 40 ref bits, a type nibble above them;
; node < way < relation (bounds below, changeset/note/user above).
(define-fun kBounds    () (_ BitVec 64) #x0800000000000000)
(define-fun kNode      () (_ BitVec 64) #x1000000000000000)
(define-fun kWay       () (_ BitVec 64) #x2000000000000000)
(define-fun kRelation  () (_ BitVec 64) #x3000000000000000)
(define-fun kChangeset () (_ BitVec 64) #x4000000000000000)
(define-fun kNote      () (_ BitVec 64) #x5000000000000000)
(define-fun kUser      () (_ BitVec 64) #x6000000000000000)
(define-fun pack ((k (_ BitVec 64)) (r (_ BitVec 64)) (v (_ BitVec 64))) (_ BitVec 64)
  (bvor k (bvor (bvshl r #x0000000000000010) (bvand v #x000000000000ffff))))
(define-fun kindOf ((x (_ BitVec 64))) (_ BitVec 64) (bvand x #x7f00000000000000))
(define-fun refOf ((x (_ BitVec 64))) (_ BitVec 64) (bvlshr (bvand x #x00ffffffffff0000) #x0000000000000010))
(define-fun verOf ((x (_ BitVec 64))) (_ BitVec 64) (bvand x #x000000000000ffff))
(define-fun dropVer ((x (_ BitVec 64))) (_ BitVec 64) (bvand x #x7fffffffffff0000))
(define-fun inRef ((r (_ BitVec 64))) Bool (bvult r #x0000010000000000))
(define-fun inVer ((v (_ BitVec 64))) Bool (bvult v #x0000000000010000))
(define-fun kindName ((k (_ BitVec 64))) String
  (ite (= k kNode) "node" (ite (= k kWay) "way" (ite (= k kRelation) "relation"
  (ite (= k kChangeset) "changeset" (ite (= k kNote) "note" (ite (= k kUser) "user"
  (ite (= k kBounds) "bounds" ""))))))))
(define-fun isKind ((k (_ BitVec 64))) Bool
  (or (= k kNode) (= k kWay) (= k kRelation) (= k kChangeset) (= k kNote) (= k kUser) (= k kBounds)))
(define-fun isElemKind ((k (_ BitVec 64))) Bool (or (= k kNode) (= k kWay) (= k kRelation)))
(define-fun kindNameInv ((s String)) (_ BitVec 64)
  (ite (= s "node") kNode (ite (= s "way") kWay (ite (= s "relation") kRelation
  (ite (= s "changeset") kChangeset (ite (= s "note") kNote (ite (= s "user") kUser
  (ite (= s "bounds") kBounds #x0000000000000000))))))))
(define-fun kindNameU ((k (_ BitVec 64))) String (ite (isElemKind k) (kindName k) "unknown"))
