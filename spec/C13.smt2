; mode int
; C13 -- annotating a change. The history datasource is an arbitrary but
; deterministic environment: what a lookup returns is a function of the
; datasource and the id (ghost functions below).
(declare-fun nodeHist (Iface Int) Slice)
(declare-fun nodeHistErr (Iface Int) Iface)
(declare-fun wayHist (Iface Int) Slice)
(declare-fun wayHistErr (Iface Int) Iface)
(declare-fun relHist (Iface Int) Slice)
(declare-fun relHistErr (Iface Int) Iface)
(declare-fun dsNotFound (Iface Iface) Bool)
; "the history version that has the greatest version number below its own":
; H = contents of the history array (element pointers), o/n = offset/length,
; V = the Version field heap of the element kind, xv = the element's version,
; p = the candidate previous element. Opaque predicates with a definitional
; axiom, so that frame reasoning goes by congruence and the definition is
; unfolded only where an isPrevIn term occurs.
(declare-fun isPrevIn ((Array Int Int) Int Int (Array Int Int) Int Int) Bool)
(assert (forall ((H (Array Int Int)) (o Int) (n Int) (V (Array Int Int)) (xv Int) (p Int))
  (! (= (isPrevIn H o n V xv p)
        (and (not (= p 0))
             (exists ((j Int)) (and (<= 0 j) (< j n) (= (select H (sidx o j)) p)))
             (< (select V p) xv)
             (forall ((j Int)) (! (=> (and (<= 0 j) (< j n) (< (select V (select H (sidx o j))) xv))
                                     (<= (select V (select H (sidx o j))) (select V p)))
                                 :pattern ((select H (sidx o j)))))))
     :pattern ((isPrevIn H o n V xv p)))))
(declare-fun noPrevIn ((Array Int Int) Int Int (Array Int Int) Int) Bool)
(assert (forall ((H (Array Int Int)) (o Int) (n Int) (V (Array Int Int)) (xv Int))
  (! (= (noPrevIn H o n V xv)
        (forall ((j Int)) (! (=> (and (<= 0 j) (< j n)) (not (< (select V (select H (sidx o j))) xv)))
                            :pattern ((select H (sidx o j))))))
     :pattern ((noPrevIn H o n V xv)))))
