; mode int
; C13 -- annotating a change. The history datasource is an arbitrary but
; deterministic environment: what a lookup returns is a function of the
; datasource and the id (ghost functions below).
(declare-fun nodeHist (Iface Int) Slice)
(declare-fun nodeHistErr (Iface Int) Iface)
(declare-fun wayHist (Iface Int) Slice)
(declare-fun wayHistErr (Iface Int) Iface)
(declare-fun relHist (Iface Int) Slice)
(declare-fun relHistErr (Iface Int) Iface)
(declare-fun dsNotFound (Iface Iface) Bool)
