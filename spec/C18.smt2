; mode int
; uses-type osm.Tag osm.polyCondition
; C18 -- area classification.
; tagFind: value of the first tag with key k among n tags, "" if none
; (characterised relationally; opaque function with two axioms).
(declare-fun tagFind ((Array Int S_osm_Tag) Int Int String) String)
(assert (forall ((T (Array Int S_osm_Tag)) (o Int) (n Int) (k String))
  (! (=> (forall ((j Int)) (! (=> (and (<= 0 j) (< j n)) (not (= (S_osm_Tag_f_Key (select T (sidx o j))) k)))
                              :pattern ((select T (sidx o j)))))
         (= (tagFind T o n k) ""))
     :pattern ((tagFind T o n k)))))
(assert (forall ((T (Array Int S_osm_Tag)) (o Int) (n Int) (k String) (f Int))
  (! (=> (and (<= 0 f) (< f n) (= (S_osm_Tag_f_Key (select T (sidx o f))) k)
              (forall ((j Int)) (! (=> (and (<= 0 j) (< j f)) (not (= (S_osm_Tag_f_Key (select T (sidx o j))) k)))
                                   :pattern ((select T (sidx o j))))))
         (= (tagFind T o n k) (S_osm_Tag_f_Value (select T (sidx o f)))))
     :pattern ((tagFind T o n k) (select T (sidx o f))))))
; membership and sortedness of a string list (opaque, definitional axioms)
(declare-fun inStrs ((Array Int String) Int Int String) Bool)
(assert (forall ((A (Array Int String)) (o Int) (n Int) (v String))
  (! (= (inStrs A o n v) (exists ((j Int)) (and (<= 0 j) (< j n) (= (select A (sidx o j)) v))))
     :pattern ((inStrs A o n v)))))
(declare-fun sortedStrs ((Array Int String) Int Int) Bool)
(assert (forall ((A (Array Int String)) (o Int) (n Int))
  (! (= (sortedStrs A o n)
        (forall ((i Int) (j Int)) (! (=> (and (<= 0 i) (< i j) (< j n)) (str.<= (select A (sidx o i)) (select A (sidx o j))))
                                    :pattern ((select A (sidx o i)) (select A (sidx o j))))))
     :pattern ((sortedStrs A o n)))))
; sort.SearchStrings on a sorted list returns the lower bound (trusted: its documentation)
(declare-fun lowerBound ((Array Int String) Int Int String) Int)
(assert (forall ((A (Array Int String)) (o Int) (n Int) (x String))
  (! (=> (and (sortedStrs A o n) (>= n 0))
      (and (<= 0 (lowerBound A o n x)) (<= (lowerBound A o n x) n)
         (forall ((i Int)) (! (=> (and (<= 0 i) (< i (lowerBound A o n x))) (str.< (select A (sidx o i)) x)) :pattern ((select A (sidx o i)))))
         (=> (< (lowerBound A o n x) n) (str.<= x (select A (sidx o (lowerBound A o n x)))))))
     :pattern ((lowerBound A o n x)))))
; membership is decided by looking at the lower bound (proved from the above, then used as an axiom)
; lemma sortedShort
(assert (forall ((A (Array Int String)) (o Int) (n Int))
  (! (=> (<= n 1) (sortedStrs A o n))
     :pattern ((sortedStrs A o n)))))
; lemma lowerBoundMembership
(assert (forall ((A (Array Int String)) (o Int) (n Int) (x String))
  (! (=> (and (sortedStrs A o n) (>= n 0))
         (= (inStrs A o n x) (and (< (lowerBound A o n x) n) (= (select A (sidx o (lowerBound A o n x))) x))))
     :pattern ((lowerBound A o n x)))))
; "some listed key has a value other than 'no' that passes that key's
; all/whitelist/blacklist rule" -- for one rule, given the value v found for its key
(define-fun rulePasses ((cond String) (member Bool)) Bool
  (or (= cond "all") (and (= cond "whitelist") member) (and (= cond "blacklist") (not member))))
(define-fun valueCounts ((v String)) Bool (and (not (= v "")) (not (= v "no"))))
