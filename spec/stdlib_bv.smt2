; mode bv
; Trusted model of strconv/fmt/strings text functions in bit-vector mode.
; itoa: decimal text of a 64-bit integer (as printed by %d); atoi/isDec: what
; strconv.ParseInt(s, 10, 64) returns / whether it succeeds.
(declare-fun itoa ((_ BitVec 64)) String)
(declare-fun isDec (String) Bool)
(declare-fun atoi (String) (_ BitVec 64))
(assert (forall ((x (_ BitVec 64)))
  (! (and (isDec (itoa x)) (= (atoi (itoa x)) x)
          (not (str.contains (itoa x) "/")) (not (str.contains (itoa x) ":"))
          (not (= (itoa x) "-")) (>= (str.len (itoa x)) 1))
     :pattern ((itoa x)))))
(declare-fun fmt_pad0 (String Int) String)
; strings.Split(s, sep) for at most two parts, characterised without quantifiers
(define-fun split1 ((s String) (sep String)) Bool (< (str.indexof s sep 0) 0))
(define-fun split2 ((s String) (sep String)) Bool
  (and (>= (str.indexof s sep 0) 0) (< (str.indexof s sep (+ (str.indexof s sep 0) (str.len sep))) 0)))
(define-fun splitHead ((s String) (sep String)) String (str.substr s 0 (str.indexof s sep 0)))
(define-fun splitTail ((s String) (sep String)) String
  (str.substr s (+ (str.indexof s sep 0) (str.len sep)) (str.len s)))
