; mode int
; Trusted model of strconv/fmt/strings text functions in integer mode.
(define-fun itoa ((x Int)) String (ite (>= x 0) (str.from_int x) (str.++ "-" (str.from_int (- x)))))
(define-fun atoi ((s String)) Int
  (ite (str.prefixof "-" s) (- (str.to_int (str.substr s 1 (- (str.len s) 1))))
    (ite (str.prefixof "+" s) (str.to_int (str.substr s 1 (- (str.len s) 1))) (str.to_int s))))
(define-fun isDec ((s String)) Bool
  (and (str.in_re s (re.++ (re.opt (re.union (str.to_re "-") (str.to_re "+"))) (re.+ (re.range "0" "9"))))
       (<= (- 9223372036854775808) (atoi s)) (<= (atoi s) 9223372036854775807)))
(declare-fun fmt_pad0 (String Int) String)
(define-fun split1 ((s String) (sep String)) Bool (< (str.indexof s sep 0) 0))
(define-fun split2 ((s String) (sep String)) Bool
  (and (>= (str.indexof s sep 0) 0) (< (str.indexof s sep (+ (str.indexof s sep 0) (str.len sep))) 0)))
(define-fun splitHead ((s String) (sep String)) String (str.substr s 0 (str.indexof s sep 0)))
(define-fun splitTail ((s String) (sep String)) String
  (str.substr s (+ (str.indexof s sep 0) (str.len sep)) (str.len s)))
