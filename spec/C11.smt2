; mode int
; accessors of a core.Parent as functions of the interface value (pure, assumed)
(declare-fun pCommitted (Iface) Int)
(declare-fun pTimestamp (Iface) Int)
(declare-fun pVisible (Iface) Bool)
(declare-fun pChangeset (Iface) Int)
; verdict of the datasource's NotFound on an error value
(declare-fun c11Missing (Iface) Bool)
; childAt[p][i]: the child version last handed to parent p for its reference number i (SetChild)
; ghost childAt (Array Iface (Array Int Int))
