; mode int
; accessors of a core.Parent as functions of the interface value (pure, assumed)
(declare-fun pCommitted (Iface) Int)
(declare-fun pTimestamp (Iface) Int)
