; mode int
; uses-type osm.Update osm.WayNode osm.Member
; C15 -- applying updates. Spec functions transcribe the statement:
; "changes exactly the children named by updates stamped at or before t",
; "keeps the later updates pending in their original order".
;
; Recursive spec functions are axiomatised with fuel (Dafny style): the
; definitional axiom unfolds f(LS(ly), ..) into f(ly, ..) and the synonym
; axiom says fuel does not change the value. This bounds unfolding per term
; and avoids matching loops inside quantified invariants.
(declare-sort Fuel 0)
(declare-fun LS (Fuel) Fuel)
(declare-const LZ Fuel)
(define-fun updTs ((u S_osm_Update)) Int (S_osm_Update_f_Timestamp u))
(define-fun updIdx ((u S_osm_Update)) Int (S_osm_Update_f_Index u))
; index (relative to o) of the last of the first n updates with ts <= t and Index = i, or -1
(declare-fun lastAppF (Fuel (Array Int S_osm_Update) Int Int Int Int) Int)
(assert (forall ((ly Fuel) (U (Array Int S_osm_Update)) (o Int) (n Int) (t Int) (i Int))
  (! (= (lastAppF (LS ly) U o n t i) (lastAppF ly U o n t i)) :pattern ((lastAppF (LS ly) U o n t i)))))
(assert (forall ((ly Fuel) (U (Array Int S_osm_Update)) (o Int) (n Int) (t Int) (i Int))
  (! (= (lastAppF (LS ly) U o n t i)
        (ite (<= n 0) (- 1)
          (ite (and (<= (updTs (select U (sidx o (- n 1)))) t) (= (updIdx (select U (sidx o (- n 1)))) i)) (- n 1)
            (lastAppF ly U o (- n 1) t i))))
     :pattern ((lastAppF (LS ly) U o n t i)))))
(define-fun lastApp ((U (Array Int S_osm_Update)) (o Int) (n Int) (t Int) (i Int)) Int (lastAppF (LS (LS LZ)) U o n t i))
; number of the first n updates stamped after t (rank function of the pending filter)
(declare-fun cntLateF (Fuel (Array Int S_osm_Update) Int Int Int) Int)
(assert (forall ((ly Fuel) (U (Array Int S_osm_Update)) (o Int) (n Int) (t Int))
  (! (= (cntLateF (LS ly) U o n t) (cntLateF ly U o n t)) :pattern ((cntLateF (LS ly) U o n t)))))
(assert (forall ((ly Fuel) (U (Array Int S_osm_Update)) (o Int) (n Int) (t Int))
  (! (= (cntLateF (LS ly) U o n t)
        (ite (<= n 0) 0
          (+ (cntLateF ly U o (- n 1) t) (ite (> (updTs (select U (sidx o (- n 1)))) t) 1 0))))
     :pattern ((cntLateF (LS ly) U o n t)))))
(define-fun cntLate ((U (Array Int S_osm_Update)) (o Int) (n Int) (t Int)) Int (cntLateF (LS (LS LZ)) U o n t))
(define-fun wnApply ((x S_osm_WayNode) (u S_osm_Update)) S_osm_WayNode
  (mk_S_osm_WayNode (S_osm_WayNode_f_ID x) (S_osm_Update_f_Version u) (S_osm_Update_f_ChangesetID u) (S_osm_Update_f_Lat u) (S_osm_Update_f_Lon u)))
(define-fun nodeAfter ((x S_osm_WayNode) (U (Array Int S_osm_Update)) (o Int) (n Int) (t Int) (i Int)) S_osm_WayNode
  (ite (< (lastApp U o n t i) 0) x (wnApply x (select U (sidx o (lastApp U o n t i))))))
; relation members: apply one update (orientation flips on Reverse)
(define-fun mApply ((m S_osm_Member) (u S_osm_Update)) S_osm_Member
  (mk_S_osm_Member (S_osm_Member_f_Type m) (S_osm_Member_f_Ref m) (S_osm_Member_f_Role m)
    (S_osm_Update_f_Version u) (S_osm_Update_f_ChangesetID u) (S_osm_Update_f_Lat u) (S_osm_Update_f_Lon u)
    (ite (S_osm_Update_f_Reverse u) (* (S_osm_Member_f_Orientation m) (- 1)) (S_osm_Member_f_Orientation m))
    (S_osm_Member_f_Nodes m)))
; member i after applying, in list order, those of the first n updates that are stamped <= t and name index i
(declare-fun memberAfterF (Fuel S_osm_Member (Array Int S_osm_Update) Int Int Int Int) S_osm_Member)
(assert (forall ((ly Fuel) (m S_osm_Member) (U (Array Int S_osm_Update)) (o Int) (n Int) (t Int) (i Int))
  (! (= (memberAfterF (LS ly) m U o n t i) (memberAfterF ly m U o n t i)) :pattern ((memberAfterF (LS ly) m U o n t i)))))
(assert (forall ((ly Fuel) (m S_osm_Member) (U (Array Int S_osm_Update)) (o Int) (n Int) (t Int) (i Int))
  (! (= (memberAfterF (LS ly) m U o n t i)
        (ite (<= n 0) m
          (ite (and (<= (updTs (select U (sidx o (- n 1)))) t) (= (updIdx (select U (sidx o (- n 1)))) i))
            (mApply (memberAfterF ly m U o (- n 1) t i) (select U (sidx o (- n 1))))
            (memberAfterF ly m U o (- n 1) t i))))
     :pattern ((memberAfterF (LS ly) m U o n t i)))))
(define-fun memberAfter ((m S_osm_Member) (U (Array Int S_osm_Update)) (o Int) (n Int) (t Int) (i Int)) S_osm_Member
  (memberAfterF (LS (LS LZ)) m U o n t i))
; number of the first n updates stamped at or before t
(declare-fun cntEarlyF (Fuel (Array Int S_osm_Update) Int Int Int) Int)
(assert (forall ((ly Fuel) (U (Array Int S_osm_Update)) (o Int) (n Int) (t Int))
  (! (= (cntEarlyF (LS ly) U o n t) (cntEarlyF ly U o n t)) :pattern ((cntEarlyF (LS ly) U o n t)))))
(assert (forall ((ly Fuel) (U (Array Int S_osm_Update)) (o Int) (n Int) (t Int))
  (! (= (cntEarlyF (LS ly) U o n t)
        (ite (<= n 0) 0
          (+ (cntEarlyF ly U o (- n 1) t) (ite (> (updTs (select U (sidx o (- n 1)))) t) 0 1))))
     :pattern ((cntEarlyF (LS ly) U o n t)))))
(define-fun cntEarly ((U (Array Int S_osm_Update)) (o Int) (n Int) (t Int)) Int (cntEarlyF (LS (LS LZ)) U o n t))
; annotated way nodes (the library's own convention: version set, or a location)
(define-fun wnAnnotated ((x S_osm_WayNode)) Bool
  (or (not (= (S_osm_WayNode_f_Version x) 0)) (not (= (S_osm_WayNode_f_Lon x) 0.0)) (not (= (S_osm_WayNode_f_Lat x) 0.0))))
(declare-fun cntAnnF (Fuel (Array Int S_osm_WayNode) Int Int) Int)
(assert (forall ((ly Fuel) (N (Array Int S_osm_WayNode)) (o Int) (n Int))
  (! (= (cntAnnF (LS ly) N o n) (cntAnnF ly N o n)) :pattern ((cntAnnF (LS ly) N o n)))))
(assert (forall ((ly Fuel) (N (Array Int S_osm_WayNode)) (o Int) (n Int))
  (! (= (cntAnnF (LS ly) N o n)
        (ite (<= n 0) 0 (+ (cntAnnF ly N o (- n 1)) (ite (wnAnnotated (select N (sidx o (- n 1)))) 1 0))))
     :pattern ((cntAnnF (LS ly) N o n)))))
(define-fun cntAnn ((N (Array Int S_osm_WayNode)) (o Int) (n Int)) Int (cntAnnF (LS (LS LZ)) N o n))
