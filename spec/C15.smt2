; mode int
; uses-type osm.Update osm.WayNode osm.Member
; C15 -- applying updates. Spec functions transcribe the statement:
; "changes exactly the children named by updates stamped at or before t",
; "keeps the later updates pending in their original order".
;
; Recursive spec functions are axiomatised with fuel (Dafny style): the
; definitional axiom unfolds f(LS(ly), ..) into f(ly, ..) and the synonym
; axiom says fuel does not change the value. This bounds unfolding per term
; and avoids matching loops inside quantified invariants.
(declare-sort Fuel 0)
(declare-fun LS (Fuel) Fuel)
(declare-const LZ Fuel)
(define-fun updTs ((u S_osm_Update)) Int (S_osm_Update_f_Timestamp u))
(define-fun updIdx ((u S_osm_Update)) Int (S_osm_Update_f_Index u))
; index (relative to o) of the last of the first n updates with ts <= t and Index = i, or -1
(declare-fun lastAppF (Fuel (Array Int S_osm_Update) Int Int Int Int) Int)
(assert (forall ((ly Fuel) (U (Array Int S_osm_Update)) (o Int) (n Int) (t Int) (i Int))
  (! (= (lastAppF (LS ly) U o n t i) (lastAppF ly U o n t i)) :pattern ((lastAppF (LS ly) U o n t i)))))
(assert (forall ((ly Fuel) (U (Array Int S_osm_Update)) (o Int) (n Int) (t Int) (i Int))
  (! (= (lastAppF (LS ly) U o n t i)
        (ite (<= n 0) (- 1)
          (ite (and (<= (updTs (select U (sidx o (- n 1)))) t) (= (updIdx (select U (sidx o (- n 1)))) i)) (- n 1)
            (lastAppF ly U o (- n 1) t i))))
     :pattern ((lastAppF (LS ly) U o n t i)))))
(define-fun lastApp ((U (Array Int S_osm_Update)) (o Int) (n Int) (t Int) (i Int)) Int (lastAppF (LS (LS LZ)) U o n t i))
; number of the first n updates stamped after t (rank function of the pending filter)
(declare-fun cntLateF (Fuel (Array Int S_osm_Update) Int Int Int) Int)
(assert (forall ((ly Fuel) (U (Array Int S_osm_Update)) (o Int) (n Int) (t Int))
  (! (= (cntLateF (LS ly) U o n t) (cntLateF ly U o n t)) :pattern ((cntLateF (LS ly) U o n t)))))
(assert (forall ((ly Fuel) (U (Array Int S_osm_Update)) (o Int) (n Int) (t Int))
  (! (= (cntLateF (LS ly) U o n t)
        (ite (<= n 0) 0
          (+ (cntLateF ly U o (- n 1) t) (ite (> (updTs (select U (sidx o (- n 1)))) t) 1 0))))
     :pattern ((cntLateF (LS ly) U o n t)))))
(define-fun cntLate ((U (Array Int S_osm_Update)) (o Int) (n Int) (t Int)) Int (cntLateF (LS (LS LZ)) U o n t))
(define-fun wnApply ((x S_osm_WayNode) (u S_osm_Update)) S_osm_WayNode
  (mk_S_osm_WayNode (S_osm_WayNode_f_ID x) (S_osm_Update_f_Version u) (S_osm_Update_f_ChangesetID u) (S_osm_Update_f_Lat u) (S_osm_Update_f_Lon u)))
(define-fun nodeAfter ((x S_osm_WayNode) (U (Array Int S_osm_Update)) (o Int) (n Int) (t Int) (i Int)) S_osm_WayNode
  (ite (< (lastApp U o n t i) 0) x (wnApply x (select U (sidx o (lastApp U o n t i))))))
