; mode int
; C19 -- replication state search. The remote directory is a ghost
; environment: which sequence numbers have a state file, and the timestamp
; written in each; timestamps increase with the sequence number (statement:
; "any replication directory whose state files carry increasing timestamps").
(declare-fun rexists (Int) Bool)
(declare-fun rts (Int) Int)
(assert (forall ((a Int) (b Int))
  (! (=> (and (rexists a) (rexists b) (< a b)) (< (rts a) (rts b))) :pattern ((rts a) (rts b)))))
; the newest state
(declare-const rcur Int)
(assert (rexists rcur))
(assert (forall ((m Int)) (! (=> (rexists m) (<= m rcur)) :pattern ((rexists m)))))
; a sequence number value behind the SeqNum interface: its number and directory
(declare-fun seqVal (Iface) Int)
(declare-fun seqDir (Iface) String)
