; mode int
; ghost sentSet (Array Int Bool)
; sentSet[r]: relation id r has been sent on the ordering's output channel (entered by the verifier
; at every channel send of an integer value)
; histMissing(e): the datasource's NotFound verdict on error e (the relation has no history)
(declare-fun histMissing (Iface) Bool)
; noHist(r): the datasource has no history for relation r (what its NotFound verdict on the error of a
; RelationHistory call for r means)
(declare-fun noHist (Int) Bool)

; walkCalls: number of entries into (*ChildFirstOrdering).walk so far (incremented by the `entrycount` ghost
; statement of its contract); lets the member loop say "this relation member was walked"
; ghost walkCalls Int
