; mode int
; ghost sentSet (Array Int Bool)
; sentSet[r]: relation id r has been sent on the ordering's output channel (entered by the verifier
; at every channel send of an integer value)
; histMissing(e): the datasource's NotFound verdict on error e (the relation has no history)
(declare-fun histMissing (Iface) Bool)
