; mode int
; Ghost token sequence of an encoding/xml.Encoder (C04): entry k of what has been written is
; emitName[k]; emitN entries so far. Elements written by Encode/EncodeElement are entered by their
; element name (one entry per call: the run of elements the value produces), start and end tokens
; as "<name" and "</name".
; ghost emitN Int
; ghost emitName (Array Int String)
; text of a time in a layout (in the time's own location); isUTC(t): t was obtained from Time.UTC
(declare-fun timeFormat (Int String) String)
(declare-fun isUTC (Int) Bool)
