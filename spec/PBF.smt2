; mode int
; Ghost environment of the PBF reader pipeline.
; rpos[r]      : number of bytes consumed so far from reader r
; cancelled[c] : whether context c has been cancelled (ctx.Err() != nil); may
;                change (monotonically) at every channel operation
; ghost rpos (Array Iface Int)
; ghost-async cancelled (Array Iface Bool)
; reader position when the decoder was started (FullyScannedBytes is relative to it)
(declare-const rstart Int)
; ghost buflen (Array Int Int)
