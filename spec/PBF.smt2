; mode int
; Ghost environment of the PBF reader pipeline.
; rpos[r]      : number of bytes consumed so far from reader r
; cancelled[c] : whether context c has been cancelled (ctx.Err() != nil); may
;                change (monotonically) at every channel operation
; ghost rpos (Array Iface Int)
; ghost-async cancelled (Array Iface Bool)
; reader position when the decoder was started (FullyScannedBytes is relative to it)
(declare-const rstart Int)
; ghost buflen (Array Int Int)
; protoscan iterators over packed varints: itLeft[a] = number of complete
; values still unread in the iterator whose embedded base lives at address a
; ghost itLeft (Array Int Int)
; invariant S_protoscan_base (>= (S_protoscan_base_f_Index $v) 0)
; round-robin position: rr(c, n) = position of the c-th item in a cyclic order
; over n places (c mod n), given by its recurrence
(declare-fun rr (Int Int) Int)
(assert (forall ((n Int)) (! (=> (>= n 1) (= (rr 0 n) 0)) :pattern ((rr 0 n)))))
(assert (forall ((c Int) (n Int))
  (! (=> (and (>= c 0) (>= n 1))
         (and (<= 0 (rr c n)) (< (rr c n) n)
              (= (rr (+ c 1) n) (ite (= (+ (rr c n) 1) n) 0 (+ (rr c n) 1)))))
     :pattern ((rr c n)))))
; the context a cancel function (context.WithCancel) cancels
(declare-fun ctxOf (Int) Iface)
; values of packed iterators: itSeq[a] is the sequence of values of the iterator at address a,
; itPos[a] the number of values read so far (C01)
; ghost itSeq (Array Int (Array Int Int))
; ghost itPos (Array Int Int)
; prefix sums (delta coding): psum(s, k) = s[0] + ... + s[k-1]
(define-fun-rec psum ((s (Array Int Int)) (k Int)) Int
  (ite (<= k 0) 0 (+ (psum s (- k 1)) (select s (- k 1)))))
; zsize[r]: number of bytes reader r still yields before EOF (the inflated size of a zlib stream)
; ghost zsize (Array Iface Int)
; sendAttempts: number of send statements and selects with a send case executed so far (entered by
; the verifier); used for "one output attempt per input" in the worker goroutine
; ghost sendAttempts Int
; msgLast[a]: the value of the last successful scalar read through the protoscan base at address a
; ghost msgLast (Array Int Int)
; itField[a]: the field number the message was positioned at when the iterator at address a was made
; ghost itField (Array Int Int)
; filter callbacks (C08): filterCalls counts calls of user filter functions, lastVerdict is what the
; last one returned
; ghost filterCalls Int
; ghost lastVerdict Bool
; msgKind[a]: which reader made the last successful scalar read through the protoscan base at address a
; (1 int32, 2 int64, 3 uint32, 4 bool, 5 sint32, 6 sint64): the wire interpretation osmformat.proto
; prescribes per field is checked against it
; ghost msgKind (Array Int Int)
; xmlDecodes: number of DecodeElement calls made so far (osmxml scanner: an iteration of the token loop
; that decoded an element delivers it - it never goes round again, C03)
; ghost xmlDecodes Int
